#!/bin/sh
# Evaluate a seeded change: apply <patch> to a scratch worktree of /repo HEAD, run the given checks (quick tier unless TIER is set)
# against it through VERIF_REPO, report which fire, remove the worktree.   usage: evalmut.sh <patch.diff> C02 [C01 ...]
P=$(readlink -f "$1"); shift
W=$(mktemp -d /tmp/evalmut.XXXXXX)
git -C /repo worktree add -f --detach "$W" HEAD >/dev/null 2>&1 || { echo "worktree failed"; exit 2; }
if ! git -C "$W" apply "$P"; then echo "PATCH DOES NOT APPLY"; git -C /repo worktree remove --force "$W"; exit 2; fi
cd /verif
for c in "$@"; do
  out=$(VERIF_REPO="$W" VERIF_SEED=${VERIF_SEED:-1} timeout 3000 ./check "$c" --tier ${TIER:-quick} 2>&1)
  rc=$?
  n=$(printf '%s\n' "$out" | grep -c '^VIOLATION')
  echo "== $c rc=$rc violations=$n"
  printf '%s\n' "$out" | grep '^violation' | cut -c1-${WIDTH:-260} | head -${LINES_MAX:-4}
  printf '%s\n' "$out" | grep 'INCONCLUSIVE' | cut -c1-200 | head -2
done
git -C /repo worktree remove --force "$W"
rm -rf "$W"
