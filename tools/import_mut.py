#!/usr/bin/env python3
"""Confirm and import a seeded change produced by a sub-agent.

usage: import_mut.py <PID> <A|B> [extra checks ...]

Steps (everything in scratch worktrees of /repo HEAD under /tmp, removed afterwards):
  1. the patch applies to a clean checkout;
  2. the repository's own suite still passes with it (250 stable tests);
  3. the agent's demonstration fails with the patch and passes without it;
  4. the owning check (plus extra checks) is run against the patched tree (quick tier; thorough if quick is silent);
  5. /verif/seeded/<PID>-<A|B>/ = patch.diff, demo (source + run script), agent notes, meta.json.
"""
import os, sys, subprocess, json, shutil, tempfile, re, time

pid, which = sys.argv[1], sys.argv[2]
extra = [a for a in sys.argv[3:] if not a.startswith("--")]
rnd = 1
for a in sys.argv:
    if a.startswith("--round"):
        rnd = int(a[len("--round"):])
src = {1: "/tmp/mut_%s/_mut"}.get(rnd, "/tmp/mut" + str(rnd) + "_%s/_mut") % pid
# labels: the first pair of letters that is free or already holds this round's import of this property
label = None
for pair in ("AB", "CD", "EF", "GH", "IJ", "KL", "MN", "OP"):
    cand = pair["AB".index(which)]
    d0 = "/verif/seeded/%s-%s" % (pid, cand)
    other = "/verif/seeded/%s-%s" % (pid, pair["BA".index(which)])
    def rnd_of(d):
        try:
            return json.load(open(d + "/meta.json")).get("round") or 1
        except Exception:
            return None
    r0, r1 = rnd_of(d0), rnd_of(other)
    if (r0 in (None, rnd)) and (r1 in (None, rnd)):
        label = cand
        break
dst = "/verif/seeded/%s-%s" % (pid, label)
patch = os.path.join(src, which + ".diff")


def sh(cmd, **kw):
    return subprocess.run(cmd, shell=True, stdout=subprocess.PIPE, stderr=subprocess.STDOUT, text=True, **kw)


def worktree():
    w = tempfile.mkdtemp(prefix="impmut.")
    r = sh("git -C /repo worktree add -f --detach %s HEAD" % w)
    assert r.returncode == 0, r.stdout
    return w


def drop(w):
    sh("git -C /repo worktree remove --force %s" % w)
    shutil.rmtree(w, ignore_errors=True)


meta = {"id": "%s-%s" % (pid, label), "round": rnd, "property": pid, "source": "independent sub-agent given only the property text and a scratch worktree",
        "repo_head": sh("git -C /repo rev-parse --short HEAD").stdout.strip(), "date": time.strftime("%Y-%m-%d")}
clean, mut = worktree(), worktree()
bdir = tempfile.mkdtemp(prefix="impbuild.")
try:
    r = sh("git -C %s apply %s" % (mut, patch))
    if r.returncode != 0:
        # the scratch tree of the agent was older than /repo HEAD: 3-way merge, then keep the patch re-created against HEAD
        r = sh("git -C %s apply --3way %s" % (mut, patch))
        if r.returncode == 0 and not sh("git -C %s diff --name-only --diff-filter=U" % mut).stdout.strip():
            open(patch + ".rebased", "w").write(sh("git -C %s diff HEAD" % mut).stdout)
            sh("git -C %s reset -q" % mut)
            patch = patch + ".rebased"
            meta["rebased_on"] = meta["repo_head"]
    meta["applies"] = r.returncode == 0
    if not meta["applies"]:
        print("PATCH DOES NOT APPLY\n" + r.stdout); sys.exit(2)
    meta["files_changed"] = sh("git -C %s diff --stat" % mut).stdout.strip().splitlines()[-1]
    r = sh("sh /verif/harness/repotest.sh %s %s" % (mut, bdir))
    meta["repo_tests_with_change"] = r.stdout.strip().splitlines()[0] if r.stdout.strip() else "no output"
    meta["repo_tests_pass"] = r.returncode == 0
    run = os.path.join(src, which + "_run.sh")
    r1 = sh("cd %s && sh %s %s" % (src, run, clean), timeout=600)
    r2 = sh("cd %s && sh %s %s" % (src, run, mut), timeout=600)
    meta["demo_on_clean_tree_rc"] = r1.returncode
    meta["demo_on_changed_tree_rc"] = r2.returncode
    meta["demo_changed_output_tail"] = r2.stdout.strip().splitlines()[-3:]
    meta["demo_confirms"] = r1.returncode == 0 and r2.returncode != 0
    print("applies=%s tests=%s demo clean rc=%d changed rc=%d" % (meta["applies"], meta["repo_tests_with_change"], r1.returncode, r2.returncode))
    # our checks
    results = {}
    for c in [pid] + extra:
        for tier in ("quick", "thorough"):
            t0 = time.time()
            r = sh("cd /verif && VERIF_REPO=%s VERIF_SEED=1 timeout 3000 ./check %s --tier %s" % (mut, c, tier))
            keys = re.findall(r"^violation key=(\S+)", r.stdout, re.M)
            results["%s/%s" % (c, tier)] = {"rc": r.returncode, "violation_keys": keys[:6], "wall_s": round(time.time() - t0, 1)}
            print("  %s %s rc=%d %s" % (c, tier, r.returncode, keys[:3]))
            if r.returncode == 1 or c != pid:
                break
    meta["checks"] = results
    meta["caught_by"] = sorted(k for k, v in results.items() if v["rc"] == 1)
    os.makedirs(dst, exist_ok=True)
    shutil.copy(patch, os.path.join(dst, "patch.diff"))
    for f in (which + "_demo.c", which + "_run.sh", which + ".md"):
        if os.path.exists(os.path.join(src, f)):
            shutil.copy(os.path.join(src, f), os.path.join(dst, f.replace(which + "_", "").replace(which + ".md", "notes.md")))
            if f.endswith("_run.sh"):
                p = os.path.join(dst, "run.sh"); t = open(p).read().replace(which + "_demo.c", "demo.c").replace(which + "_run.sh", "run.sh"); open(p, "w").write(t)
    for f in os.listdir(src):
        if f.startswith(which + "_") and f not in (which + "_demo.c", which + "_run.sh") and os.path.getsize(os.path.join(src, f)) < 200000 and not os.access(os.path.join(src, f), os.X_OK):
            shutil.copy(os.path.join(src, f), os.path.join(dst, f))
    notes = open(os.path.join(src, which + ".md")).read() if os.path.exists(os.path.join(src, which + ".md")) else ""
    m = re.search(r"(?is)(trigger|manifest)[^\n]*\n(.{0,600})", notes)
    meta["needs_to_manifest"] = (m.group(0)[:700] if m else notes[:700]).strip()
    meta["what_was_run"] = ["git apply patch.diff on a clean worktree of /repo HEAD", "harness/repotest.sh (cmake RelWithDebInfo, ninja -k 0, ctest) on the changed tree",
                            "sh run.sh <clean tree> ; sh run.sh <changed tree>", "VERIF_REPO=<changed tree> ./check <property> --tier quick [thorough]"]
    json.dump(meta, open(os.path.join(dst, "meta.json"), "w"), indent=1)
    print("imported to", dst, "caught_by", meta["caught_by"])
finally:
    drop(clean); drop(mut); shutil.rmtree(bdir, ignore_errors=True)
