#!/bin/sh
# Re-create seeded/<id>/patch.diff against the current /repo HEAD when it only applies with a 3-way merge (context moved by a later fix).
# usage: tools/rebase_patch.sh <id>
id=$1; P=/verif/seeded/$id/patch.diff
W=$(mktemp -d /tmp/rebase.XXXXXX)
git -C /repo worktree add -f --detach "$W" HEAD >/dev/null 2>&1 || exit 2
if git -C "$W" apply "$P" 2>/dev/null; then echo "$id applies as it is"; rc=0
elif git -C "$W" apply --3way "$P" >/dev/null 2>&1 && [ -z "$(git -C "$W" diff --name-only --diff-filter=U)" ]; then
  git -C "$W" diff HEAD > "$P.new" && mv "$P.new" "$P"
  python3 - "$id" <<PY
import json,sys,subprocess
p="/verif/seeded/%s/meta.json"%sys.argv[1]; m=json.load(open(p))
m["rebased_on"]=subprocess.run("git -C /repo rev-parse --short HEAD",shell=True,stdout=subprocess.PIPE,text=True).stdout.strip()
json.dump(m,open(p,"w"),indent=1)
PY
  echo "$id rebased"; rc=0
else echo "$id DOES NOT APPLY"; rc=1; fi
git -C /repo worktree remove --force "$W"; rm -rf "$W"; exit $rc
