#!/usr/bin/env python3
"""Re-evaluate a seeded change after a check was strengthened and record the result in its meta.json.
usage: recure.py <seeded id> "<history text>" Cxx [Cyy ...]      (quick tier; TIER=thorough for the other)"""
import sys, os, json, re, subprocess, tempfile, shutil
sid, text, checks = sys.argv[1], sys.argv[2], sys.argv[3:]
d = "/verif/seeded/" + sid
meta = json.load(open(d + "/meta.json"))
tier = os.environ.get("TIER", "quick")
w = tempfile.mkdtemp(prefix="recure.")
assert subprocess.run("git -C /repo worktree add -f --detach %s HEAD" % w, shell=True, capture_output=True).returncode == 0
try:
    r = subprocess.run("git -C %s apply %s/patch.diff" % (w, d), shell=True, capture_output=True, text=True)
    if r.returncode:
        print("PATCH DOES NOT APPLY", r.stderr); sys.exit(2)
    for c in checks:
        r = subprocess.run("cd /verif && VERIF_REPO=%s VERIF_SEED=%s timeout 3000 ./check %s --tier %s" % (w, os.environ.get("VERIF_SEED", "1"), c, tier),
                           shell=True, capture_output=True, text=True)
        keys = re.findall(r"^violation key=(\S+)", r.stdout, re.M)
        meta.setdefault("checks", {})["%s/%s" % (c, tier)] = {"rc": r.returncode, "violation_keys": keys[:6]}
        print(sid, c, tier, "rc=%d" % r.returncode, keys[:3])
    meta["caught_by"] = sorted(k for k, v in meta["checks"].items() if v["rc"] == 1)
    if text:
        meta["history"] = ((meta.get("history") or "") + " " + text).strip()
    meta["repo_head_revalidated"] = subprocess.run("git -C /repo rev-parse --short HEAD", shell=True, capture_output=True, text=True).stdout.strip()
    json.dump(meta, open(d + "/meta.json", "w"), indent=1)
finally:
    subprocess.run("git -C /repo worktree remove --force %s" % w, shell=True, capture_output=True)
    shutil.rmtree(w, ignore_errors=True)
