#!/usr/bin/env python3
"""Regenerate the generated tables of DESIGN.md (between <!-- gen:NAME --> ... <!-- /gen:NAME --> markers):
  fixes  - one row per 'fix:' commit of /repo, joined with the 'fixed:' lines of known_findings.txt
  seeded - one row per kept seeded change (seeded/*/meta.json)"""
import subprocess, re, json, glob, os
V = os.path.dirname(os.path.dirname(os.path.abspath(__file__)))


def fixes():
    log = subprocess.run("git -C /repo log --reverse --format='%h %s' --grep='^fix:'", shell=True, stdout=subprocess.PIPE, text=True).stdout.splitlines()
    kf = {}
    for l in open(os.path.join(V, "known_findings.txt")):
        m = re.match(r"fixed: property=(C\d+) (\w+) (.*)", l.strip())
        if m:
            kf.setdefault(m.group(2)[:7], []).append((m.group(1), m.group(3)))
    out = ["| commit | properties | repair | what failed |", "|---|---|---|---|"]
    for l in log:
        h, s = l.split(" ", 1)
        ent = kf.get(h[:7], [])
        props = ", ".join(sorted({p for p, _ in ent})) or "?"
        what = " / ".join(w for _, w in ent) or "?"
        out.append("| `%s` | %s | %s | %s |" % (h[:7], props, s[len("fix: "):].replace("|", "/"), what.replace("|", "/")))
    missing = [h for h in kf if not any(l.startswith(h) for l in log)]
    assert not missing, "fixed: lines without commit: %r" % missing
    return "\n".join(out)


def seeded():
    out = ["| id | file(s) | change (agent's title) | violation keys of the owning check | caught by |", "|---|---|---|---|---|"]
    for p in sorted(glob.glob(os.path.join(V, "seeded/*/meta.json"))):
        m = json.load(open(p))
        d = os.path.dirname(p)
        files = sorted(set(re.findall(r"^\+\+\+ b/(\S+)", open(os.path.join(d, "patch.diff")).read(), re.M)))
        title = ""
        if os.path.exists(os.path.join(d, "notes.md")):
            title = open(os.path.join(d, "notes.md")).readline().strip().lstrip("# ").strip()
        keys = []
        for k, v in m["checks"].items():
            if v["rc"] == 1:
                keys += [x for x in v["violation_keys"] if x not in keys]
        tier = "quick" if any(c.endswith("/quick") for c in m["caught_by"]) else ("thorough" if m["caught_by"] else "NOT CAUGHT")
        how = ("strengthened, " if m.get("history") else "first version, ") + tier
        extra = [c for c in m["caught_by"] if not c.startswith(m["property"])]
        if extra:
            how += " (also " + ", ".join(extra) + ")"
        out.append("| %s | %s | %s | %s | %s |" % (m["id"], ", ".join("`%s`" % os.path.basename(f) for f in files), title[:110].replace("|", "/"),
                                               ", ".join("`%s`" % k for k in keys[:2]), how))
    return "\n".join(out)


if __name__ == "__main__":
    p = os.path.join(V, "DESIGN.md")
    s = open(p).read()
    for name, fn in (("fixes", fixes), ("seeded", seeded)):
        pat = re.compile(r"(<!-- gen:%s -->\n).*?(\n<!-- /gen:%s -->)" % (name, name), re.S)
        assert pat.search(s), "marker %s missing" % name
        s = pat.sub(lambda m: m.group(1) + fn() + m.group(2), s)
    open(p, "w").write(s)
    print("DESIGN.md tables regenerated")
