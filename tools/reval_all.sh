#!/bin/sh
# Re-run the owning check (quick tier) against every kept seeded change on the current /repo HEAD: each patch must still apply and still be caught.
# usage: tools/reval_all.sh [ids...]   -> one line per change, summary at the end; exit 1 if a change is missed or does not apply
cd /verif
ids="$@"; [ -n "$ids" ] || ids=$(ls seeded)
miss=0; n=0
for id in $ids; do
  # the checks recorded as catching it (normally the owning check; a few changes are caught by the check of a neighbouring property)
  prop=$(python3 -c "import json,sys;m=json.load(open('seeded/$id/meta.json'));c=[x.split('/')[0] for x in m.get('caught_by',[])];print(c[0] if c else m['property'])")
  # a few changes need the thorough tier of their check (payloads beyond one block, the 128th repetition of a frame, ...)
  tier=$(python3 -c "import json;m=json.load(open('seeded/$id/meta.json'));c=m.get('caught_by',[]);print('thorough' if c and all(x.endswith('/thorough') for x in c) else 'quick')")
  out=$(TIER=$tier sh tools/evalmut.sh seeded/$id/patch.diff $prop 2>&1)
  rc=$(printf '%s\n' "$out" | sed -n 's/^== .* rc=\([0-9]*\).*/\1/p' | head -1)
  key=$(printf '%s\n' "$out" | sed -n 's/^violation key=\([^ ]*\).*/\1/p' | head -1)
  n=$((n+1))
  if [ "$rc" = "1" ]; then echo "$id caught $key"; else echo "$id NOT-CAUGHT rc=$rc $(printf '%s' "$out" | head -2 | tr '\n' ' ' | cut -c1-120)"; miss=$((miss+1)); fi
done
echo "re-evaluated $n seeded changes against $(git -C /repo rev-parse --short HEAD): $miss not caught"
[ $miss -eq 0 ]
