"""Dictionary / configuration generators shared by the monitors."""
import random
from sim import Obj, Config, var, string, domain, W, R, P, A, N, D, RW


def add_mandatory(cfg, ident=(0x11, 0x22, 0x33, 0x44), hb=0, sync_id=0x80, sync_cycle=None,
                  emcy_id=0x80, emcy_hist=0, ssdo=1, ssdo_rw=True, with1014=True, with1017=True,
                  with1005=True, with1018=True, ssdo_dyn=False):
    cfg.add(var(0x1000, 0, D | R, 4, 0x191))
    cfg.add(var(0x1001, 0, P | R, 1, 0))
    if emcy_hist > 0:
        cfg.add(var(0x1003, 0, RW, 1, 0, "emcyhist"))
        for n in range(1, emcy_hist + 1):
            cfg.add(var(0x1003, n, R, 4, 0, "emcyhist"))
    if with1005:
        cfg.add(var(0x1005, 0, RW, 4, sync_id, "syncid"))
    if sync_cycle is not None:
        cfg.add(var(0x1006, 0, RW, 4, sync_cycle, "synccycle"))
    if with1014:
        cfg.add(var(0x1014, 0, N | RW, 4, emcy_id, "emcyid"))
    if with1017:
        cfg.add(var(0x1017, 0, RW, 2, hb, "hbprod"))
    if with1018:
        cfg.add(var(0x1018, 0, D | R, 1, 4))
        for i in range(4):
            cfg.add(var(0x1018, i + 1, D | R, 4, ident[i]))
    for s in range(ssdo):
        cfg.add(var(0x1200 + s, 0, D | R, 1, 2))
        fl = (N | RW) if ssdo_rw else (N | R)
        dyn = 0x40000000 if (ssdo_dyn and s >= 1) else 0      # additional channel "assigned dynamically" (bit 30 of both COB-IDs): enabled like any other
        ty = "sdoid" if (ssdo_rw or s >= 1) else None      # read-only parameters of the default server: plain UNSIGNED32 like the repository's quickstart dictionary
        cfg.add(var(0x1200 + s, 1, fl, 4, 0x600 + 0x10 * s + dyn, ty))
        cfg.add(var(0x1200 + s, 2, fl, 4, 0x580 + 0x10 * s + dyn, ty))
    return cfg


def add_csdo(cfg, num=0, server=2, tx=0x600, rx=0x580):
    cfg.add(var(0x1280 + num, 0, D | R, 1, 3))
    cfg.add(var(0x1280 + num, 1, RW, 4, tx, "sdoid"))
    cfg.add(var(0x1280 + num, 2, RW, 4, rx, "sdoid"))
    cfg.add(var(0x1280 + num, 3, RW, 1, server))


def add_hbcons(cfg, entries):
    """entries: list of (node, time)"""
    cfg.add(var(0x1016, 0, R, 1, len(entries), "hbcons"))
    for i, (node, time) in enumerate(entries):
        cfg.add(Obj(0x1016, i + 1, RW, "hbcons", "H", node, time))


def add_rpdo(cfg, num, cobid, typ, maps, nmap_slots=8):
    """maps: list of 32-bit mapping values"""
    cfg.add(var(0x1400 + num, 0, D | R, 1, 2))
    cfg.add(var(0x1400 + num, 1, N | RW, 4, cobid, "pdoid"))
    cfg.add(var(0x1400 + num, 2, RW, 1, typ, "pdotype"))
    cfg.add(var(0x1600 + num, 0, RW, 1, len(maps), "pdonum"))
    for i in range(nmap_slots):
        cfg.add(var(0x1600 + num, i + 1, RW, 4, maps[i] if i < len(maps) else 0, "pdomap"))


def add_tpdo(cfg, num, cobid, typ, inhibit, event, maps, nmap_slots=8, with_inhibit=True):
    cfg.add(var(0x1800 + num, 0, D | R, 1, 5))
    cfg.add(var(0x1800 + num, 1, N | RW, 4, cobid, "pdoid"))
    cfg.add(var(0x1800 + num, 2, RW, 1, typ, "pdotype"))
    if with_inhibit:               # the inhibit time is an optional sub-entry of the record
        cfg.add(var(0x1800 + num, 3, RW, 2, inhibit))
    cfg.add(var(0x1800 + num, 5, RW, 2, event, "pdoevent"))
    cfg.add(var(0x1A00 + num, 0, RW, 1, len(maps), "pdonum"))
    for i in range(nmap_slots):
        cfg.add(var(0x1A00 + num, i + 1, RW, 4, maps[i] if i < len(maps) else 0, "pdomap"))


def maplink(idx, sub, bits):
    return (idx << 16) | (sub << 8) | bits


def std_config(nodeid=1, freq=1000, tmrnum=16, **kw):
    cfg = Config(nodeid=nodeid, freq=freq, tmrnum=tmrnum)
    add_mandatory(cfg, **kw)
    return cfg


def rand_bytes(rng, n):
    return bytes(rng.getrandbits(8) for _ in range(n))


def rand_nonzero_bytes(rng, n):
    return bytes(rng.randint(1, 255) for _ in range(n))
