"""C11 - heartbeat consumer: events exactly for missed heartbeats."""
import random
import framework as F
import sim as S
import gen
from sim import Config, var, W, R, P, A, N, D, RW

PROP = "C11"
LEVEL = "exploration"
RULE = ("consumer tables of 1..4 entries x histories of heartbeats (monitored / unmonitored nodes, arbitrary gaps, all state codes), SDO writes "
        "of every (node, time) class to every entry (same node, node monitored elsewhere, free entry, active entry, time 0; the write-class x "
        "entry-state matrix is enumerated), counter reads, last-state queries, ticks past several timeouts, heartbeats and rewrites arriving while the timeout of that entry is served but not yet processed; callbacks with ticks, counters, "
        "SDO verdicts and 1016h read-back compared with a reference monitor in lockstep; non-trivial = history with >= 1 heartbeat event and "
        ">= 1 write; distinct by script")
ASSUMPTIONS = ["node ids 1..127 are written; node in PRE-OPERATIONAL or OPERATIONAL", "consumer times are a whole number of ticks"]
VARIANTS = ["asan"]

DEC = {0: 1, 127: 2, 5: 3, 4: 4}     # state byte -> CO_MODE


class Entry:
    def __init__(self, node, time):
        self.node, self.time = node, time
        self.active = time > 0
        self.deadline = None
        self.count = 0
        self.last = 0


class HbcModel:
    def __init__(self, entries, freq):
        self.freq = freq
        self.e = [Entry(n, t) for (n, t) in entries]
        # at start-up entries are activated from the highest sub-index down; a duplicate node id makes initialisation fail,
        # so generated tables have distinct node ids among entries with time > 0

    def ticks(self, ms):
        return ms * self.freq // 1000

    def find(self, node):
        for x in self.e:
            if x.active and x.node == node:
                return x
        return None

    def heartbeat(self, node, state, now):
        x = self.find(node)
        if x is None:
            return None
        x.deadline = now + self.ticks(x.time)
        d = DEC.get(state, 0)
        ch = None
        if d != x.last:
            ch = (node, d)
        x.last = d
        return ("consumed", ch)

    def advance(self, t0, t1):
        evs = []
        for t in range(t0 + 1, t1 + 1):
            for x in self.e:
                if x.active and x.deadline is not None and x.deadline == t:
                    evs.append((x.node, t))
                    x.count = min(255, x.count + 1)
                    x.deadline = t + self.ticks(x.time)
        return evs

    def write(self, k, node, time):
        """-> abort code or None"""
        if time > 0 and self.find(node) is not None:
            return 0x06040043
        x = self.e[k]
        x.node, x.time = node, time
        x.active = time > 0
        x.deadline = None
        x.count = 0
        x.last = 0
        return None

    def events(self, node):
        x = self.find(node)
        if x is None:
            return -1
        c = x.count
        x.count = 0
        return c

    def last(self, node):
        x = self.find(node)
        return x.last if x else 0


def run_history(res, exe, rng, first, matrix_case=None):
    nid = rng.choice([1, 20])
    freq = 1000
    ne = rng.randint(1, 4)
    nodes = rng.sample([2, 3, 5, 7, 9, 126, 127], ne)
    entries = [(nodes[i], rng.choice([0, 0, 5, 10, 20, 50, 200, 2000])) for i in range(ne)]
    if matrix_case is not None:
        ne = 3
        entries = [(5, 20), (7, 0), (9, 50)]
    cfg = Config(nodeid=nid, freq=freq, tmrnum=rng.choice([ne, ne, 16]))           # ne: exactly one timer per consumer entry, none to spare
    gen.add_mandatory(cfg, hb=0, ssdo=1, ssdo_rw=False)
    gen.add_hbcons(cfg, entries)
    sim = S.Sim(exe, cfg)
    m = HbcModel(entries, freq)
    script = []
    nev = nwr = 0

    def fail(key, msg, exp=None, obs=None):
        res.violation("c11/" + key, "table %r: %s | script tail: %s" % (entries, msg, "; ".join(script[-7:])), sim=sim, expected=exp, observed=obs)

    def common(evs):
        for iv in S.invs(evs):
            return "invariant " + iv
        if S.cbs(evs, "fatal"):
            return "fatal callback"
        return None

    try:
        if rng.random() < 0.5:
            sim.rx(0, bytes([1, nid]))
        pool_nodes = sorted(set(nodes + [4, 11]))
        if matrix_case is not None:
            pool_nodes = [5, 7, 9, 11]
        nsteps = rng.choice([40, 80, 160])
        plan_ops = []
        if matrix_case is not None:
            # entry states: 0 active+armed (after a heartbeat), 1 free, 2 active not armed; write classes enumerated
            k, cls = matrix_case
            plan_ops = [("hb", 5, 5), ("tick", 3), ("write", k, cls), ("tick", 30), ("hb", 5, 5), ("hb", 9, 127), ("hb", 11, 5), ("hb", 7, 5), ("tick", 120),
                        ("events", 5), ("events", 7), ("events", 9), ("events", 11), ("read", 0), ("read", 1), ("read", 2)]
            nsteps = len(plan_ops)
        for i in range(nsteps):
            if plan_ops:
                op = plan_ops[i]
            else:
                x = rng.random()
                if x < 0.35:
                    op = ("hb", rng.choice(pool_nodes), rng.choice([5, 5, 127, 4, 0, 1, 255, rng.getrandbits(8)]))
                elif x < 0.65:
                    op = ("tick", rng.choice([1, 2, 4, 5, 9, 10, 11, 19, 20, 21, 49, 50, 51, 120, 450]))
                elif x < 0.80:
                    op = ("write", rng.randrange(ne), rng.choice(["same", "other-active", "new", "zero-same", "zero-other", "zero-new"]))
                elif x < 0.81 and x >= 0.80:
                    op = ("nohb", rng.choice(pool_nodes + [0]))
                elif x < 0.815:
                    op = ("hbcb", rng.choice(pool_nodes), rng.choice([5, 127, 4]))
                elif x < 0.82:
                    op = (rng.choice(["nmtreset", "reinit"]),)
                elif x < 0.84:
                    op = ("pending", rng.choice(["hb", "hb", "zero", "retarget", "none", "zero-other"]))
                elif x < 0.855:
                    op = ("evcb", rng.choice(["zero", "retime", "reset"]))
                elif x < 0.88:
                    op = ("events", rng.choice(pool_nodes))
                elif x < 0.94:
                    op = ("last", rng.choice(pool_nodes))
                else:
                    op = ("read", rng.randrange(ne))
            now = sim.tick
            if op[0] == "hb":
                _, node, st = op
                script.append("hb node %d state %d @%d" % (node, st, now))
                r = m.heartbeat(node, st, now)
                evs = sim.rx(0x700 + node, bytes([st]))
                err = common(evs)
                ch = [(int(c[1]), int(c[2])) for c in S.cbs(evs, "hbchange")]
                want = [r[1]] if (r and r[1]) else []
                ncanrx = len(S.cbs(evs, "canrx"))
                if err is None and ch != want:
                    err = "state-change notifications %r, reference %r" % (ch, want)
                    key = "change"
                elif err is None and ncanrx != (0 if r else 1):
                    err = "heartbeat of %s node %d: COIfCanReceive called %d times" % ("monitored" if r else "unmonitored", node, ncanrx)
                    key = "consume"
                elif err is None and S.cbs(evs, "hbevent"):
                    err = "heartbeat event signalled on reception"
                    key = "event-on-rx"
                else:
                    key = "inv"
                if err:
                    fail(key, err); return
            elif op[0] == "hbcb":
                # API calls made from inside a callback: the state change notification makes the application restart the monitoring of
                # that node with another time (deactivate + activate the same entry).  The entry is then a fresh one: no previous
                # state, so the next heartbeat is notified again, whatever state it carries
                _, node, st = op
                x = m.find(node)
                if x is None or DEC.get(st, 0) == x.last:
                    continue
                k = m.e.index(x)
                t2 = rng.choice([20, 50, 100])
                script.append("hb node %d state %d @%d, callback re-writes 1016h:%d (time %d)" % (node, st, now, k + 1, t2))
                sim.cmd("hbchangecb %d %x %x" % (k + 1, node << 16, (node << 16) | t2))
                r = m.heartbeat(node, st, now)
                m.write(k, node, 0); m.write(k, node, t2)
                evs = sim.rx(0x700 + node, bytes([st]))
                err = common(evs)
                ch = [(int(c[1]), int(c[2])) for c in S.cbs(evs, "hbchange")]
                rw = [c[1:] for c in S.cbs(evs, "hbrewrite")]
                if err:
                    fail("inv", err); return
                if ch != [r[1]] or rw != [[str(k + 1), "0", "0"]]:
                    fail("change/in-callback", "notifications %r (reference %r), re-configuration inside the callback returned %r" % (ch, [r[1]], rw)); return
                got_last = int(sim.ret("hblast %d" % node)[0])
                if got_last != 0:
                    fail("change/in-callback-state", "entry 1016h:%d re-written inside the state change callback: last state of node %d reads %d, reference 0 (no heartbeat since)" % (k + 1, node, got_last)); return
                res.counters["rewrites_inside_change_callback"] += 1
            elif op[0] in ("nmtreset", "reinit"):
                # reset communication / the documented restart on the RAM as it is: every configured entry (time > 0) is a fresh one
                # afterwards - monitoring starts with the first heartbeat, no events counted, no previous state
                script.append("%s @%d" % (op[0], now))
                if op[0] == "nmtreset":
                    evs = sim.rx(0, bytes([130, nid]))
                else:
                    sim.cmd("reinit"); evs = sim.cmd("start")
                for x in m.e:
                    x.deadline, x.count, x.last = None, 0, 0
                err = common(evs)
                if err is None and (S.cbs(evs, "hbevent") or S.cbs(evs, "hbchange")):
                    err = "reset / restart signalled %r" % [c[:3] for c in S.cbs(evs, "hbevent") + S.cbs(evs, "hbchange")]
                if err:
                    fail("restart", err); return
                for x in m.e:
                    if x.active:
                        got_last = int(sim.ret("hblast %d" % x.node)[0])
                        if got_last != 0:
                            fail("restart/state", "after %s the last state of node %d reads %d, reference 0 (no heartbeat since)" % (op[0], x.node, got_last)); return
                res.counters["resets_and_restarts"] += 1
            elif op[0] == "evcb":
                # API calls made from inside the heartbeat event callback: the application re-configures the entry that just reported
                # the loss (deactivate / deactivate and activate with another time) or resets the communication
                armed = sorted((x.deadline, i_) for i_, x in enumerate(m.e) if x.active and x.deadline is not None)
                if not armed or (len(armed) > 1 and armed[1][0] <= armed[0][0]) or armed[0][0] - now > 5000 or armed[0][0] <= now:
                    continue
                dl, k = armed[0]
                x = m.e[k]
                node = x.node
                t2 = rng.choice([20, 50, 100])
                what = op[1]
                script.append("tick %d @%d, event callback of node %d: %s" % (dl - now, now, node, what))
                if what == "reset":
                    sim.cmd("hbeventcb -1")
                elif what == "zero":
                    sim.cmd("hbeventcb %d %x" % (k + 1, node << 16))
                else:
                    sim.cmd("hbeventcb %d %x %x" % (k + 1, node << 16, (node << 16) | t2))
                evs = sim.cmd("tick %d" % (dl - now))
                want = sorted(m.advance(now, sim.tick))
                got = sorted((int(c[1]), int(c[2])) for c in S.cbs(evs, "hbevent"))
                if what == "reset":
                    for y in m.e:
                        y.deadline, y.count, y.last = None, 0, 0
                else:
                    m.write(k, node, 0)
                    if what == "retime":
                        m.write(k, node, t2)
                err = common(evs)
                if err:
                    fail("inv", err); return
                rw = [c[1:] for c in S.cbs(evs, "hbrewrite")]
                if got != want or (what != "reset" and rw != [[str(k + 1), "0", "0"]]) or (what == "reset" and not S.cbs(evs, "hbreset")):
                    fail("events/in-callback", "heartbeat events %r (reference %r), action inside the callback: %r" % (got, want, rw)); return
                # nothing of the old monitoring may be left: the timers in use are those of the entries the model has armed
                armed_now = sum(1 for y in m.e if y.active and y.deadline is not None)
                occ = sim.occ()
                if occ.get("hbc", armed_now) != armed_now:
                    fail("events/in-callback-timer", "%d heartbeat consumer timers in use after the callback, reference %d" % (occ.get("hbc"), armed_now)); return
                res.counters["actions_inside_event_callback"] += 1
            elif op[0] == "nohb":
                # frames that are no heartbeat: 700h + id without the state byte (DLC 0), and 700h itself (there is no node 0) -
                # they start or restart no monitoring and notify no state
                node = op[1]
                script.append("no heartbeat: %x dlc %d @%d" % (0x700 + node, 0 if node else 1, now))
                evs = sim.rx(0x700 + node, b"" if node else bytes([5]))
                err = common(evs)
                if err is None and (S.cbs(evs, "hbchange") or S.cbs(evs, "hbevent")):
                    err = "a frame that is no heartbeat caused %r" % [c[:3] for c in S.cbs(evs, "hbchange") + S.cbs(evs, "hbevent")]
                if err:
                    fail("not-a-heartbeat", err); return
                res.counters["frames_that_are_no_heartbeat"] += 1
            elif op[0] == "tick":
                script.append("tick %d @%d" % (op[1], now))
                evs = sim.cmd("tick %d" % op[1])
                want = sorted(m.advance(now, sim.tick))
                got = sorted((int(c[1]), int(c[2])) for c in S.cbs(evs, "hbevent"))
                err = common(evs)
                if err:
                    fail("inv", err); return
                if got != want:
                    fail("events/%s" % ("missing" if len(got) < len(want) else "extra" if len(got) > len(want) else "shifted"),
                         "heartbeat events (node, tick) %r, reference %r" % (got[:8], want[:8]), want, got); return
                nev += len(got)
                if S.cbs(evs, "hbchange"):
                    fail("change-on-tick", "state-change notification without a heartbeat"); return
            elif op[0] == "write":
                _, k, cls = op
                act = [x for x in m.e if x.active]
                cur = m.e[k]
                if cls == "same":
                    node, time = cur.node, rng.choice([5, 10, 50, 200])
                elif cls == "other-active":
                    oth = [x for x in act if x is not cur]
                    if not oth:
                        continue
                    node, time = rng.choice(oth).node, rng.choice([5, 20, 100])
                elif cls == "new":
                    node, time = rng.choice([n for n in [4, 11, 12, 13, 100] if m.find(n) is None]), rng.choice([5, 10, 20, 50])
                elif cls == "zero-same":
                    node, time = cur.node, 0
                elif cls == "zero-other":
                    oth = [x for x in act if x is not cur]
                    if not oth:
                        continue
                    node, time = rng.choice(oth).node, 0
                else:
                    node, time = rng.choice([4, 11, 12]), 0
                state = "armed" if (cur.active and cur.deadline is not None) else ("active" if cur.active else "free")
                script.append("write 1016:%d = {node %d, %d ms} (%s, entry %s) @%d" % (k + 1, node, time, cls, state, now))
                want = m.write(k, node, time)
                code, evs = S.sdo_write(sim, nid, 0x1016, k + 1, (node << 16) | time, 4)
                nwr += 1
                err = common(evs)
                if err:
                    fail("inv", err); return
                if code != want:
                    fail("write-verdict/%s/%s" % (cls, state), "write answered %s, reference %s" % (
                        "%08x" % code if isinstance(code, int) else code, "%08x" % want if want else "confirmed"), want, code); return
                res.states.add((cls, state))
            elif op[0] == "pending":
                # the timeout of the entry with the nearest deadline has been served by the tick interrupt but is not yet processed
                # when a heartbeat of that node arrives / the entry is rewritten; then the timer processing runs. The deadline and
                # the operation share one tick, so the event of that entry may or may not be signalled (once, with this tick);
                # everything else - other entries, the new deadline, no later event of a cleared entry - is exact.
                armed = [x for x in m.e if x.active and x.deadline is not None]
                if not armed:
                    continue
                T = min(x.deadline for x in armed)
                if T - now > 400 or T <= now:
                    continue
                tgt = next(x for x in armed if x.deadline == T)
                k = m.e.index(tgt)
                what = op[1]
                others = [x for x in m.e if x.active and x is not tgt]
                if what == "zero-other" and not others:
                    what = "none"
                script.append("pending timeout of node %d @%d then %s" % (tgt.node, T, what))
                evs = sim.cmd("svc %d" % (T - now))
                if S.cbs(evs, "hbevent"):
                    fail("event-in-service", "heartbeat event signalled by the tick service itself"); return
                if m.advance(now, T - 1):
                    fail("harness", "model: earlier deadline"); return
                due = [x for x in m.e if x.active and x.deadline == T]
                tnode = tgt.node
                want_ch = []
                optional = set()
                if what in ("hb", "zero", "retarget"):
                    optional.add((tnode, T))
                    due.remove(tgt)
                if what == "hb":
                    st = rng.choice([5, 127, 4])
                    r = m.heartbeat(tnode, st, T)
                    want_ch = [r[1]] if r[1] else []
                    evs = sim.rx(0x700 + tnode, bytes([st]))
                elif what == "zero":
                    m.write(k, tnode, 0)
                    code, evs = S.sdo_write(sim, nid, 0x1016, k + 1, (tnode << 16), 4)
                    if code is not None:
                        fail("write-verdict/pending", "deactivation with pending timeout answered %r" % code); return
                elif what == "retarget":
                    nn = rng.choice([n for n in [4, 11, 12, 13, 100] if m.find(n) is None])
                    m.write(k, nn, 20)
                    code, evs = S.sdo_write(sim, nid, 0x1016, k + 1, (nn << 16) | 20, 4)
                    if code is not None:
                        fail("write-verdict/pending", "re-targeting with pending timeout answered %r" % code); return
                elif what == "zero-other":
                    o = rng.choice(others)
                    ko, on = m.e.index(o), o.node
                    if o in due:
                        due.remove(o)          # its own event becomes optional as well
                        optional.add((on, T))
                    m.write(ko, on, 0)
                    code, evs = S.sdo_write(sim, nid, 0x1016, ko + 1, (on << 16), 4)
                    if code is not None:
                        fail("write-verdict/pending", "deactivation of another entry answered %r" % code); return
                else:
                    evs = []
                evs = evs + sim.cmd("tproc")
                err = common(evs)
                if err:
                    fail("inv", err); return
                got = sorted((int(c[1]), int(c[2])) for c in S.cbs(evs, "hbevent"))
                ch = [(int(c[1]), int(c[2])) for c in S.cbs(evs, "hbchange")]
                required = sorted((x.node, T) for x in due)
                miss = [r_ for r_ in required if r_ not in got]
                bad = [g for g in got if g not in required and g not in optional]
                if miss or bad or len(got) != len(set(got)):
                    fail("events/pending-" + what, "timeout of node %d pending at tick %d, then %s: events %r, required %r, optional %r" % (
                        tnode, T, what, got, required, sorted(optional)), required, got); return
                if ch != want_ch:
                    fail("change", "state-change notifications %r, reference %r" % (ch, want_ch)); return
                # bookkeeping of the model for the events that were signalled
                for x in due:
                    x.count = min(255, x.count + 1)
                    x.deadline = T + m.ticks(x.time)
                if what == "hb" and (tnode, T) in got:
                    tgt.count = min(255, tgt.count + 1)
                nev += len(got)
                res.counters["pending_timeout_steps"] += 1
                res.counters["pending_" + what] += 1
                # the counters of rewritten entries are re-synchronised by one read (their order against the event is open)
                if what in ("zero", "retarget", "zero-other"):
                    for n_ in {g[0] for g in optional}:
                        m.events(n_); sim.ret("hbevents %d" % n_)
                res.counters["pending_optional_event_signalled"] += len([g for g in got if g in optional])
            elif op[0] == "events":
                script.append("events %d" % op[1])
                want = m.events(op[1])
                got = int(sim.ret("hbevents %d" % op[1])[0])
                if got != want:
                    fail("counter", "CONmtGetHbEvents(%d) = %d, reference %d" % (op[1], got, want), want, got); return
            elif op[0] == "last":
                script.append("last %d" % op[1])
                want = m.last(op[1])
                got = int(sim.ret("hblast %d" % op[1])[0])
                if got != want:
                    fail("last-state", "CONmtLastHbState(%d) = %d, reference %d" % (op[1], got, want), want, got); return
            else:
                k = op[1]
                script.append("read 1016:%d" % (k + 1))
                v, evs = S.sdo_read(sim, nid, 0x1016, k + 1)
                want = (m.e[k].node << 16) | m.e[k].time
                if v != want:
                    fail("readback", "1016h:%d reads %r, reference %x" % (k + 1, v, want), want, v); return
        # run past >= 3 timeouts of every armed entry
        now = sim.tick
        span = 3 * max([m.ticks(x.time) for x in m.e if x.active and x.deadline is not None] + [1]) + 2
        span = min(span, 7000)
        evs = sim.cmd("tick %d" % span)
        want = sorted(m.advance(now, sim.tick))
        got = sorted((int(c[1]), int(c[2])) for c in S.cbs(evs, "hbevent"))
        if got != want:
            fail("events/final", "heartbeat events %r, reference %r" % (got[:8], want[:8]), want, got); return
        nev += len(got)
        for x in m.e:
            if x.active:
                w = m.events(x.node)
                g = int(sim.ret("hbevents %d" % x.node)[0])
                if g != w:
                    fail("counter/final", "CONmtGetHbEvents(%d) = %d, reference %d" % (x.node, g, w), w, g); return
        res.evals += 1
        res.counters["hb_events"] += nev
        res.counters["writes"] += nwr
        if nev and nwr:
            res.nt(tuple(script))
        if first:
            res.sample({"table": entries, "script_head": script[:12], "events": nev})
    except S.SimDied as e:
        res.violation("c11/crash/" + e.signature, "executor died: " + e.signature, sim=sim, detail=e.detail[-2000:])
    finally:
        sim.close()


def run_saturation(res, exe):
    cfg = Config(nodeid=1, freq=1000, tmrnum=8)
    gen.add_mandatory(cfg, hb=0, ssdo=1, ssdo_rw=False)
    gen.add_hbcons(cfg, [(5, 1)])
    sim = S.Sim(exe, cfg)
    try:
        sim.rx(0x705, bytes([5]))
        evs = sim.cmd("tick 300")
        n = len(S.cbs(evs, "hbevent"))
        c = int(sim.ret("hbevents 5")[0])
        c2 = int(sim.ret("hbevents 5")[0])
        res.evals += 1
        if n != 300 or c != 255 or c2 != 0:
            res.violation("c11/counter/saturation", "300 timeouts: %d events signalled, counter %d (reference 255), after read %d (reference 0)" % (n, c, c2), sim=sim)
        res.nt("saturation")
        res.counters["hb_events"] += n
    finally:
        sim.close()


CLASSES = ["same", "other-active", "new", "zero-same", "zero-other", "zero-new"]


def plan(tier, seed):
    q = tier == "quick"
    items = [("matrix", k, c) for k in range(3) for c in range(len(CLASSES))]
    items += [("sat", 0, 0)]
    items += [("hist", i, 50 if q else 500) for i in range(48 if q else 256)]
    return items


def work(item, ctx):
    res = F.Res()
    exe = ctx["exes"]["asan"]
    if item[0] == "matrix":
        for rep in range(6):
            rng = random.Random(F.seed_for(ctx["seed"], "C11m", item[1], item[2], rep))
            run_history(res, exe, rng, False, matrix_case=(item[1], CLASSES[item[2]]))
    elif item[0] == "sat":
        run_saturation(res, exe)
    else:
        for h in range(item[2]):
            rng = random.Random(F.seed_for(ctx["seed"], "C11", item[1], h))
            run_history(res, exe, rng, item[1] == 0 and h == 0)
    return res


def selftest(ctx):
    m = HbcModel([(5, 10)], 1000)
    assert m.heartbeat(5, 5, 0) == ("consumed", (5, 3))
    assert m.advance(0, 25) == [(5, 10), (5, 20)]
    assert m.events(5) == 2 and m.events(5) == 0
    assert m.write(0, 5, 20) == 0x06040043


def finish(total, tier):
    p = []
    if total.counters["hb_events"] < 1000:
        p.append("only %d heartbeat events observed" % total.counters["hb_events"])
    if len(total.states) < 12:
        p.append("write-class x entry-state matrix: only %d of 18 cells hit" % len(total.states))
    return p


def replay(case, ctx):
    return F.replay_log(case, ctx)
