"""C18 - the LSS slave follows the CiA 305 state machine."""
import random, zlib
import framework as F
import sim as S
import gen
from sim import Config, var, W, R, P, A, N, D, RW

PROP = "C18"
LEVEL = "exploration"
RULE = ("request sequences on 7E5h over the 21 LSS command specifiers plus unknown ones with matching / off-by-one / non-matching arguments "
        "(~75 abstract requests), NMT commands incl. reset communication, for identity values incl. 0 and FFFFFFFFh: breadth-first over the "
        "distinct states of the reference FSM to the depth bound (every request tried in every distinct reference state reached, each on "
        "the real node by replaying a shortest prefix), plus random sequences of 40 requests, plus every single and double mutation (drop, duplicate, wrong value, wrong-valued copy, swap, foreign request) of the matching selective and identify sequences; responses (0 or 1 frame on 7E4h, command "
        "specifier, payload / error code), COLssStore arguments, absence of any other reaction, boot-up identifier / node id after reset "
        "communication and the identifiers the SDO server and NMT then obey are compared; non-trivial = sequence containing >= 1 answered request; distinct by request sequence")
ASSUMPTIONS = ["a selective / identify sequence interrupted by a mismatching or foreign LSS frame: the answer to its last frame is not constrained",
               "switch-state-global with a mode other than 0/1, cs 76 (identify non-configured slave) and response DLC are not constrained",
               "activate-bit-timing: delays 0..20 ms at 1 kHz"]
VARIANTS = ["asan"]

WAIT, CONF = 1, 2
BAUD = [1000000, 800000, 500000, 250000, 125000, 0, 50000, 20000, 10000, 0]


class LModel:
    def __init__(self, ident, nid, baud=250000):
        self.ident = list(ident)             # the identity object as it reads NOW (the application may re-write an entry, e.g. the serial number)
        self.ident0 = tuple(ident)
        self.nid, self.baud = nid, baud
        self.spec = (nid, baud)              # what the node specification says: active after a power cycle unless a configuration is stored
        self.mode = WAIT
        self.selp, self.selt = 0, False      # progress, tainted
        self.idp, self.idt = 0, False
        self.pnode, self.pbaud = 0, 0
        self.store = None                    # persistent (baud, node)
        self.nmt = 2
        self.lssdead = False

    def key(self):
        return (self.mode, self.selp, self.selt, self.idp, self.idt, self.pnode, self.pbaud, self.store, self.nmt, self.nid, tuple(self.ident))

    def request(self, d):
        """d: 8 data bytes. -> ('none',) | ('resp', bytes prefix) | ('open',) ; plus side effects; store call expected -> self.want_store"""
        self.want_store = None
        cs = d[0]
        arg = int.from_bytes(d[1:5], "little")
        other_sel = not (64 <= cs <= 67)
        other_id = not (70 <= cs <= 75)
        if other_sel and self.selp:
            self.selt = True
        if other_id and self.idp:
            self.idt = True
        if cs == 4:
            if d[1] == 1:
                self.mode = CONF
            elif d[1] == 0:
                self.mode = WAIT
            else:
                self.mode = WAIT         # open in principle; generated rarely and not checked further
                return ("none",)
            return ("none",)
        if 64 <= cs <= 67:
            if self.mode != WAIT:
                return ("none",)
            k = cs - 64
            if k == 0:
                self.selt = False
                self.selp = 1 if arg == self.ident[0] else 0
                return ("none",)
            if self.selp != k:
                was = self.selp
                self.selp = 0
                return ("open",) if (self.selt and k == 3) else ("none",)
            if arg != self.ident[k]:
                self.selt = True
                return ("none",)
            if k < 3:
                self.selp = k + 1
                return ("none",)
            t = self.selt
            # the sequence is over: a repeated last frame is an out-of-sequence frame like any other
            self.selp, self.selt = 0, False
            if t:
                return ("open-sel",)
            self.mode = CONF
            return ("resp", bytes([0x44]))
        if 70 <= cs <= 75:
            k = cs - 70
            ref = self.ident[[0, 1, 2, 2, 3, 3][k]]
            ok = [arg == ref, arg == ref, arg <= ref, arg >= ref, arg <= ref, arg >= ref][k]
            if k == 0:
                self.idt = False
                self.idp = 1 if ok else 0
                return ("none",)
            if self.idp != k:
                self.idp = 0
                return ("open",) if (self.idt and k == 5) else ("none",)
            if not ok:
                self.idt = True
                return ("none",)
            if k < 5:
                self.idp = k + 1
                return ("none",)
            t = self.idt
            # the sequence is over: a repeated last frame is an out-of-sequence frame like any other
            self.idp, self.idt = 0, False
            if t:
                return ("open",)
            return ("resp", bytes([0x4F]))
        if cs == 76:
            return ("open",)
        if self.mode != CONF:
            return ("none",)
        if cs == 17:
            n = d[1]
            if 1 <= n <= 127 or n == 255:
                self.pnode = n
                return ("resp", bytes([17, 0]))
            return ("resp", bytes([17, 1]))
        if cs == 19:
            if d[1] == 0 and d[2] < 10 and BAUD[d[2]] != 0:
                self.pbaud = BAUD[d[2]]
                return ("resp", bytes([19, 0]))
            return ("resp", bytes([19, 1]))      # refused: the pending bit rate of an earlier, accepted request stays
        if cs == 23:
            self.want_store = (self.pbaud, self.pnode)
            return ("store",)
        if 90 <= cs <= 93:
            return ("resp", bytes([cs]) + self.ident[cs - 90].to_bytes(4, "little"))
        if cs == 94:
            return ("resp", bytes([94, self.nid]))
        if cs == 21:
            return ("activate",)
        return ("none",)

    def reset_com(self):
        if self.store:
            b, n = self.store
            if b:
                self.baud = b
            if n:
                self.nid = n
        self.mode = WAIT
        self.selp = self.idp = 0
        self.selt = self.idt = False
        self.pnode = self.pbaud = 0
        self.nmt = 2


def abstract_requests(ident):
    reqs = []
    def f(cs, arg=0, b1=None, b2=0):
        if b1 is not None:
            return bytes([cs, b1, b2, 0, 0, 0, 0, 0])
        return bytes([cs]) + (arg & 0xFFFFFFFF).to_bytes(4, "little") + bytes(3)
    reqs += [f(4, b1=0), f(4, b1=1)]
    for k in range(4):
        reqs += [f(64 + k, ident[k]), f(64 + k, ident[k] + 1), f(64 + k, ident[k] ^ 0x80000000)]
    for k, i in enumerate([0, 1, 2, 2, 3, 3]):
        v = ident[i]
        reqs += [f(70 + k, v), f(70 + k, v - 1), f(70 + k, v + 1)]
    reqs += [f(17, b1=1), f(17, b1=42), f(17, b1=127), f(17, b1=255), f(17, b1=0), f(17, b1=128), f(17, b1=254)]
    reqs += [f(19, b1=0, b2=0), f(19, b1=0, b2=4), f(19, b1=0, b2=8), f(19, b1=0, b2=5), f(19, b1=0, b2=9), f(19, b1=0, b2=10), f(19, b1=1, b2=0), f(19, b1=255, b2=3)]
    reqs += [f(23), f(90), f(91), f(92), f(93), f(94), f(76)]
    reqs += [f(0), f(5), f(16), f(22), f(68), f(79), f(95), f(255)]
    reqs += [("nmt", 1), ("nmt", 2), ("nmt", 128), ("nmt", 130), ("nmt", "power")]      # "power": power cycle (CONodeInit on a fresh RAM, NVM kept)
    # the application re-writes an entry of the identity object (serial number programmed at the end of the line, ...): the address the
    # LSS slave answers to is the identity object as it reads now.  The value toggles between v and v + 1, which the requests above name.
    reqs += [("app", 0), ("app", 3)]
    return reqs


def step(res, sim, m, rq, fail):
    """One request on the real node, compared with the model. Returns (ok, answered)."""
    if isinstance(rq, tuple) and rq[0] == "app":
        k = rq[1]
        if m.ident0[k] >= 0xFFFFFFFF:
            return True, False
        v = m.ident0[k] + 1 if m.ident[k] == m.ident0[k] else m.ident0[k]
        r = sim.ret("wr 1018 %d 4 %x" % (k + 1, v))
        if r and r[0] == "0":
            m.ident[k] = v
            res.counters["identity_rewritten_by_application"] += 1
        return True, False
    if isinstance(rq, tuple):
        cs = rq[1]
        old_nid = m.nid
        if cs == "power":
            # a stored configuration is the active one after a power cycle as well, for every service of the node
            evs = sim.cmd("restart") + sim.cmd("start")
            m.nid, m.baud = m.spec           # an activated but not stored bit rate does not survive the power cycle
            m.ident = list(m.ident0)         # (RAM as configured)
            m.lssdead = False
            cs = 130
        else:
            evs = sim.rx(0, bytes([cs, 0]))
        if cs == 130:
            m.reset_com()
            boot = [(cid, d) for (t, cid, dlc, d, f) in S.txs(evs)]
            if boot != [(0x700 + m.nid, b"\x00")]:
                return fail("reset/bootup-id", "after reset communication the boot-up frames are %r, reference id %x (stored configuration %r, old node id %d)" % (
                    [("%x" % c, d.hex()) for c, d in boot], 0x700 + m.nid, m.store, old_nid)), False
            if m.store and m.store[0]:
                # a stored bit rate is the bit rate the CAN controller runs with after the reset
                en = [int(e[2]) for e in evs if e[:2] == ["drv", "can_enable"]]
                if not en or en[-1] != m.baud:
                    return fail("reset/bitrate-not-applied", "stored bit rate %d: the CAN driver was enabled with %r during reset communication" % (m.baud, en)), False
            st = sim.state()
            if int(st["nodeid"]) != m.nid or int(st["baud"]) != m.baud:
                return fail("reset/active-config", "active node id %s / bit rate %s, reference %d / %d" % (st["nodeid"], st["baud"], m.nid, m.baud)), False
            # the active node id is the one every service uses: the SDO server answers on 580h+id to requests on 600h+id, and to no other
            rd = bytes([0x40, 0x00, 0x10, 0x00, 0, 0, 0, 0])
            evs = sim.rx(0x600 + m.nid, rd)
            got = [(cid, d[:4]) for (t, cid, dlc, d, f) in S.txs(evs)]
            if got != [(0x580 + m.nid, bytes([0x43, 0x00, 0x10, 0x00]))]:
                return fail("reset/sdo-id", "after reset communication with active node id %d an SDO read on %x is answered by %r (old node id %d)" % (
                    m.nid, 0x600 + m.nid, [("%x" % c, d.hex()) for c, d in got], old_nid)), False
            if old_nid != m.nid:
                evs = sim.rx(0x600 + old_nid, rd)
                if S.txs(evs):
                    return fail("reset/sdo-id", "after the change of the node id from %d to %d the SDO server still answers on the old identifier" % (old_nid, m.nid)), False
            evs = sim.rx(0, bytes([1, m.nid]))
            if int(sim.ret("getmode")[0]) != 3:
                return fail("reset/nmt-id", "NMT start addressed to the active node id %d is not obeyed" % m.nid), False
            sim.rx(0, bytes([128, m.nid]))
        else:
            m.nmt = {1: 3, 2: 4, 128: 2}[cs]
        return True, False
    exp = m.request(rq)
    store_fails = False
    if exp[0] == "store" and getattr(m, "rng", None) is not None and m.rng.random() < 0.3:
        # the application's store function reports a failure: the request is answered with error code 2 and nothing counts as stored
        sim.cmd("fault lssstore 1")
        store_fails = True
    evs = sim.rx(0x7E5, rq)
    tx = [(cid, dlc, d) for (t, cid, dlc, d, f) in S.txs(evs)]
    what = "request %s (LSS %s, NMT %d)" % (rq.hex(), "configuration" if m.mode == CONF else "waiting", m.nmt)
    for iv in S.invs(evs):
        return fail("inv", "invariant " + iv), False
    if S.cbs(evs, "canrx"):
        return fail("passed-on", what + ": LSS frame handed to the application"), False
    if any(cid != 0x7E4 for cid, _, _ in tx) or len(tx) > 1:
        return fail("foreign-reaction", what + ": frames %r" % [("%x" % c, d.hex()) for c, _, d in tx]), False
    stores = S.cbs(evs, "lssstore")
    if exp[0] != "store" and stores:
        return fail("store/unexpected", what + ": COLssStore called"), False
    if exp[0] == "none":
        if tx:
            return fail("answer/unexpected", what + ": answered %s, reference: no answer" % tx[0][2].hex()), False
        return True, False
    if exp[0] in ("open", "open-sel"):
        if exp[0] == "open-sel" and tx and tx[0][2][:1] == b"\x44":
            m.mode = CONF
        return True, bool(tx)
    if exp[0] == "resp":
        want = exp[1]
        if not tx or tx[0][2][:len(want)] != want:
            return fail("answer/%s" % ("missing" if not tx else "content"), what + ": answered %s, reference %s.." % (tx[0][2].hex() if tx else "nothing", want.hex())), False
        return True, True
    if exp[0] == "store" and store_fails:
        if len(stores) != 1 or (int(stores[0][1]), int(stores[0][2])) != m.want_store:
            return fail("store/arguments", what + ": COLssStore calls %r, reference %r" % (stores, m.want_store)), False
        if not tx or tx[0][2][:2] != bytes([23, 2]):
            return fail("answer/store-failed", what + ": the store function failed, answered %s, reference 1702.." % (tx[0][2].hex() if tx else "nothing")), False
        res.counters["failed_stores"] += 1
        return True, True
    if exp[0] == "store":
        if len(stores) != 1 or (int(stores[0][1]), int(stores[0][2])) != m.want_store:
            return fail("store/arguments", what + ": COLssStore calls %r, reference %r" % (stores, m.want_store)), False
        if not tx or tx[0][2][:2] != bytes([23, 0]):
            return fail("answer/store", what + ": answered %s, reference 1700.." % (tx[0][2].hex() if tx else "nothing")), False
        m.store = m.want_store
        return True, True
    if exp[0] == "activate":
        # documented sequence: INIT + CAN closed now, re-enabled after the delay, PRE-OPERATIONAL after the second delay
        if tx:
            return fail("answer/unexpected", what + ": activate bit timing answered"), False
        delay = int.from_bytes(rq[1:3], "little")
        if not any(e[:2] == ["drv", "can_close"] for e in evs):
            return fail("activate/no-close", what + ": CAN not closed"), False
        evs2 = sim.cmd("tick %d" % (2 * delay + 2))
        en = [e for e in evs2 if e[:2] == ["drv", "can_enable"]]
        want_b = m.pbaud or m.baud
        if not en or int(en[-1][2]) != want_b:
            return fail("activate/bitrate", what + ": CAN re-enabled with %r, reference %d" % (en, want_b)), False
        if m.pbaud:
            m.baud = m.pbaud
        got = int(sim.ret("getmode")[0])
        if got != 2:
            return fail("activate/mode", what + ": NMT mode %d after the switch delay, reference PRE-OPERATIONAL" % got), False
        m.nmt = 2
        return True, False
    raise ValueError(exp)


def run_seq(res, sim, ident, nid, seq, tag, sample=False):
    sim.cmd("restart"); sim.cmd("start")
    # the persistent LSS store survives 'restart' in the executor: clear it by storing nothing is impossible, so each sim is used for sequences without store, or re-created
    m = LModel(ident, nid)
    m.rng = random.Random(zlib.crc32(b"|".join(repr(x).encode() if isinstance(x, tuple) else bytes(x) for x in seq))) if tag[0] == "rand" else None
    ok = [True]
    script = []

    def fail(key, msg):
        if ok[0]:
            res.violation("c18/" + key, "identity %r node %d: %s | sequence: %s" % (["%x" % i for i in ident], nid, msg, " ".join(script[-8:])), sim=sim)
        ok[0] = False
        return False
    answered = 0
    for rq in seq:
        script.append(rq.hex()[:10] if not isinstance(rq, tuple) else "nmt%s" % rq[1])
        r, a = step(res, sim, m, rq, fail)
        if r is not True:
            return False, m
        answered += a
    res.evals += 1
    res.counters["requests"] += len(seq)
    res.counters["answered"] += answered
    if answered:
        res.nt(tag, tuple(script))
    if sample:
        res.sample({"identity": ["%x" % i for i in ident], "sequence": script[:16]})
    return True, m


def near_miss_sequences(ident, which):
    """All single and double mutations (drop / duplicate / wrong value / wrong-valued copy in front / swap with successor / foreign
    request in front) of the matching switch-state-selective (which = 'sel') or identify-remote-slave (which = 'id') sequence."""
    def f(cs, arg):
        return bytes([cs]) + (arg & 0xFFFFFFFF).to_bytes(4, "little") + bytes(3)
    if which == "sel":
        base = [(64 + k, ident[k]) for k in range(4)]
        wrong = [(64 + k, ident[k] ^ 1) for k in range(4)]
    else:
        ref = [ident[0], ident[1], ident[2], ident[2], ident[3], ident[3]]
        base = [(70 + k, ref[k]) for k in range(6)]
        wrong = [(70, ref[0] ^ 1), (71, ref[1] ^ 1), (72, (ref[2] + 1) & 0xFFFFFFFF if ref[2] != 0xFFFFFFFF else ref[2]), (73, ref[3] - 1 if ref[3] else 0),
                 (74, (ref[4] + 1) & 0xFFFFFFFF if ref[4] != 0xFFFFFFFF else ref[4]), (75, ref[5] - 1 if ref[5] else 0)]
    n = len(base)
    tagged = [("b", i) for i in range(n)]

    def muts(seq):
        out = []
        for i in range(len(seq)):
            out.append(seq[:i] + seq[i + 1:])                        # drop
            out.append(seq[:i] + [seq[i]] + seq[i:])                 # duplicate
            if seq[i][0] == "b":
                out.append(seq[:i] + [("w", seq[i][1])] + seq[i + 1:])   # wrong value
                out.append(seq[:i] + [("w", seq[i][1])] + seq[i:])       # wrong-valued copy in front
            if i + 1 < len(seq):
                out.append(seq[:i] + [seq[i + 1], seq[i]] + seq[i + 2:]) # swap
            out.append(seq[:i] + [("f", 0)] + seq[i:])               # foreign LSS request in front
        return out
    seqs = {tuple(tagged)}
    first = muts(tagged)
    for a in first:
        seqs.add(tuple(a))
        for b in muts(a):
            seqs.add(tuple(b))
    out = []
    for sq in sorted(seqs):
        fr = []
        for (t, i) in sq:
            if t == "b":
                fr.append(f(*base[i]))
            elif t == "w":
                fr.append(f(*wrong[i]))
            else:
                fr.append(bytes([94, 0, 0, 0, 0, 0, 0, 0]))
        out.append(fr)
    return out


def make_cfg(ident, nid):
    cfg = Config(nodeid=nid, freq=1000, tmrnum=8)
    gen.add_mandatory(cfg, hb=0, ssdo=1, ssdo_rw=False, ident=tuple(ident))
    cfg.finalize()
    return cfg


IDENTS = [(0x11, 0x22, 0x33, 0x44), (1, 0x7FFFFFFF, 0x80000000, 0xFFFFFFFE), (0x12345678, 5, 1, 1), (0xFFFFFFFE, 2, 3, 0x10)]


def plan(tier, seed):
    q = tier == "quick"
    items = [("bfs", i, 4 if q else 5) for i in range(len(IDENTS))]
    items += [("rand", i, 30 if q else 300) for i in range(32 if q else 200)]
    items += [("activate", i, 0) for i in range(4)]
    items += [("no-identity", i, 0) for i in range(3)]
    # near misses of the two multi-frame sequences (complete: all single and double mutations)
    for i in range(2 if q else len(IDENTS)):
        for which in ("sel", "id"):
            for part in range(8):
                items.append(("nearmiss", i, which, part))
    return items


def work(item, ctx):
    res = F.Res()
    exe = ctx["exes"]["asan"]
    try:
        if item[0] == "bfs":
            ident = IDENTS[item[1]]
            nid = [1, 5, 127, 64][item[1]]
            reqs = abstract_requests(ident)
            depth = item[2]
            # breadth-first over reference states; frontier entries are shortest prefixes
            seen = {}
            frontier = [[]]
            m0 = LModel(ident, nid)
            seen[m0.key()] = []
            for d in range(depth):
                nxt = []
                for prefix in frontier:
                    has_store = any((not isinstance(r, tuple)) and r[0] == 23 for r in prefix)
                    sim = S.Sim(exe, make_cfg(ident, nid)) if True else None
                    try:
                        for rq in reqs:
                            if (not isinstance(rq, tuple)) and rq[0] == 21:
                                continue
                            seq = prefix + [rq]
                            if has_store or ((not isinstance(rq, tuple)) and rq[0] == 23):
                                # the persistent store must start empty: fresh executor
                                sim2 = S.Sim(exe, make_cfg(ident, nid))
                                try:
                                    ok, m = run_seq(res, sim2, ident, nid, seq, ("bfs", item[1]))
                                finally:
                                    sim2.close()
                            else:
                                ok, m = run_seq(res, sim, ident, nid, seq, ("bfs", item[1]), sample=(item[1] == 0 and d == 1 and rq is reqs[3]))
                            if not ok:
                                return res
                            k = m.key()
                            if k not in seen:
                                seen[k] = seq
                                nxt.append(seq)
                    finally:
                        sim.close()
                frontier = nxt
                res.counters["bfs_states"] = len(seen)
            res.states = set((item[1], k) for k in seen)
        elif item[0] == "activate":
            # the bit timing switch and the other services: a selective sequence that straddles the end of the second switch delay is
            # answered; a second 'activate bit timing' during a running switch starts no second timer
            ident = IDENTS[item[1] % len(IDENTS)]
            nid = [1, 5, 127, 64][item[1] % 4]
            f = lambda cs, arg=0: bytes([cs]) + (arg & 0xFFFFFFFF).to_bytes(4, "little") + bytes(3)
            for scen in ("straddle-selective", "straddle-identify", "twice"):
                sim = S.Sim(exe, make_cfg(ident, nid))
                try:
                    d = [5, 10, 20][item[1] % 3]
                    for rq in (bytes([4, 1, 0, 0, 0, 0, 0, 0]), bytes([19, 0, 4, 0, 0, 0, 0, 0]), bytes([21]) + d.to_bytes(2, "little") + bytes(5)):
                        sim.rx(0x7E5, rq)
                    sim.cmd("tick %d" % (d + 1))               # first delay over: the CAN controller runs again
                    res.evals += 1
                    if scen == "twice":
                        sim.rx(0x7E5, bytes([21]) + d.to_bytes(2, "little") + bytes(5))
                        sim.cmd("tick %d" % (4 * d + 5))
                        sim.rx(0, bytes([1, nid]))
                        sim.cmd("tick %d" % (4 * d + 5))
                        mode, occ = int(sim.ret("getmode")[0]), sim.occ()
                        if mode != 3 or occ["lss"] != 0:
                            res.violation("c18/activate/twice", "identity %r: 'activate bit timing' repeated during the running switch, then NMT start: NMT mode %d (reference 3), %d LSS timer(s) still running" % (
                                ["%x" % i for i in ident], mode, occ["lss"]), sim=sim)
                            return res
                    else:
                        sim.rx(0x7E5, bytes([4, 0, 0, 0, 0, 0, 0, 0]))
                        sel = scen == "straddle-selective"
                        frames = [f(64 + k, ident[k]) for k in range(4)] if sel else [f(70 + k, [ident[0], ident[1], ident[2], ident[2], ident[3], ident[3]][k]) for k in range(6)]
                        cut = len(frames) // 2
                        for fr in frames[:cut]:
                            sim.rx(0x7E5, fr)
                        sim.cmd("tick %d" % (d + 1))           # the second delay ends in the middle of the sequence
                        ans = []
                        for fr in frames[cut:]:
                            ans += [x[3] for x in S.txs(sim.rx(0x7E5, fr)) if x[1] == 0x7E4]
                        if [a[:1] for a in ans] != [bytes([0x44 if sel else 0x4F])]:
                            res.violation("c18/activate/" + scen, "identity %r: matching %s sequence around the end of the bit timing switch answered %r, reference one %s" % (
                                ["%x" % i for i in ident], "selective" if sel else "identify", [a.hex() for a in ans], "44h" if sel else "4Fh"), sim=sim)
                            return res
                    res.nt("activate", scen, item[1])
                    res.counters["activate_scenarios"] += 1
                finally:
                    sim.close()
        elif item[0] == "no-identity":
            # a dictionary whose identity object lacks one of the (in CiA 301 optional) sub-entries 2..4: the node has no usable LSS
            # address, but 7E5h stays the LSS identifier - whatever arrives there is consumed by LSS and never reaches another service
            # (the application callback for unclaimed frames included) and nothing is answered that would need the missing fields
            ident = IDENTS[item[1]]
            nid = [1, 5, 127][item[1]]
            cfg = make_cfg(ident, nid)
            gone = 2 + item[1]
            cfg.objs = [o for o in cfg.objs if not (o.idx == 0x1018 and o.sub == gone)]
            cfg.finalize()
            sim = S.Sim(exe, cfg)
            try:
                for rq in [r for r in abstract_requests(ident) if not isinstance(r, tuple)]:
                    evs = sim.rx(0x7E5, rq)
                    res.evals += 1
                    passed = S.cbs(evs, "canrx") + S.cbs(evs, "pdorx")
                    other = [(cid, d.hex()) for (t, cid, dlc, d, f) in S.txs(evs) if cid != 0x7E4]
                    if passed or other:
                        res.violation("c18/no-identity/passed-on", "identity object without sub-index %d: the LSS frame %s was handed on (%r) / caused %r" % (
                            gone, rq.hex(), [c[:3] for c in passed], other), sim=sim)
                        return res
                    for iv in S.invs(evs):
                        res.violation("c18/inv/" + iv.split()[0], "invariant: " + iv, sim=sim)
                        return res
                res.nt("no-identity", item[1])
                res.counters["frames_to_a_node_without_lss_identity"] += 1
            finally:
                sim.close()
        elif item[0] == "nearmiss":
            ident = IDENTS[item[1]]
            nid = [1, 5, 127, 64][item[1]]
            seqs = near_miss_sequences(ident, item[2])[item[3]::8]
            sim = S.Sim(exe, make_cfg(ident, nid))
            try:
                for k, seq in enumerate(seqs):
                    # once from LSS waiting state, once from a state left by an earlier, unrelated partial sequence
                    pre = [] if k % 3 else [bytes([70]) + ident[0].to_bytes(4, "little") + bytes(3), bytes([64]) + ident[0].to_bytes(4, "little") + bytes(3)]
                    ok, m = run_seq(res, sim, ident, nid, pre + seq + [bytes([94, 0, 0, 0, 0, 0, 0, 0])], ("nearmiss", item[1], item[2]))
                    if not ok:
                        return res
                    res.counters["near_miss_sequences"] += 1
            finally:
                sim.close()
        else:
            for h in range(item[2]):
                rng = random.Random(F.seed_for(ctx["seed"], "C18", item[1], h))
                ident = rng.choice(IDENTS + [tuple(rng.choice([0, 1, 0xFFFFFFFF, rng.getrandbits(32)]) for _ in range(4))])
                nid = rng.choice([1, 2, 64, 127])
                reqs = abstract_requests(ident)
                seq = []
                for _ in range(40):
                    x = rng.random()
                    if x < 0.12:
                        # a full matching selective sequence
                        seq += [bytes([64 + k]) + ident[k].to_bytes(4, "little") + bytes(3) for k in range(4)]
                    elif x < 0.2:
                        lo = [ident[0], ident[1], max(0, ident[2] - rng.choice([0, 1])), min(0xFFFFFFFF, ident[2] + rng.choice([0, 1])),
                              max(0, ident[3] - rng.choice([0, 5])), min(0xFFFFFFFF, ident[3] + rng.choice([0, 5]))]
                        seq += [bytes([70 + k]) + lo[k].to_bytes(4, "little") + bytes(3) for k in range(6)]
                    elif x < 0.23:
                        seq.append(bytes([21]) + rng.choice([0, 1, 5, 20]).to_bytes(2, "little") + bytes(5))
                    else:
                        seq.append(rng.choice(reqs))
                sim = S.Sim(exe, make_cfg(ident, nid))
                try:
                    ok, m = run_seq(res, sim, ident, nid, seq, ("rand", item[1], h), sample=(item[1] == 0 and h == 0))
                finally:
                    sim.close()
                if not ok:
                    return res
    except S.SimDied as e:
        res.violation("c18/crash/" + e.signature, "executor died: " + e.signature, detail=e.detail[-2000:])
    return res


def selftest(ctx):
    m = LModel((1, 2, 3, 4), 9)
    for k in range(3):
        assert m.request(bytes([64 + k]) + (k + 1).to_bytes(4, "little") + bytes(3)) == ("none",)
    assert m.request(bytes([67, 4, 0, 0, 0, 0, 0, 0])) == ("resp", b"\x44") and m.mode == CONF
    assert m.request(bytes([17, 128, 0, 0, 0, 0, 0, 0])) == ("resp", bytes([17, 1]))
    assert m.request(bytes([94, 0, 0, 0, 0, 0, 0, 0])) == ("resp", bytes([94, 9]))


def finish(total, tier):
    p = []
    if total.counters["answered"] < 2000:
        p.append("only %d answered requests" % total.counters["answered"])
    return p


def replay(case, ctx):
    return F.replay_log(case, ctx)
