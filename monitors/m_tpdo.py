"""C12 - TPDO content, trigger, inhibit, event and SYNC rules."""
import random
import framework as F
import sim as S
import gen
from sim import Config, var, W, R, P, A, N, D, RW

PROP = "C12"
LEVEL = "exploration"
RULE = ("1..4 TPDOs (1..6 on a build with CO_TPDO_N=6 / CO_RPDO_N=2) with generated mappings (1..8 objects of 1/2/3/4 bytes, <= 8 bytes) x (type 254/255/1..240, inhibit, event time) x "
        "histories of value changes through CODictWr*/SDO/a received asynchronous RPDO mapped to the same objects, explicit triggers (PDO number, object; one frame in seven refused by the CAN driver), received SYNCs, ticks, NMT changes "
        "(OP->PREOP->OP round trips, STOP, reset communication), event-time writes, COB-ID invalidate/re-validate and complete re-mapping sequences (fewer / more objects) while OPERATIONAL, leaving OPERATIONAL / invalidating while the timer event of a TPDO is served but not yet processed; the "
        "(tick, identifier, dlc, data) TPDO emissions of every step are compared with a reference model in ticks, plus a systematic sweep of "
        "(inhibit, event, trigger offset) in {0..6}^3 x 10 ticks (every relative order and coincidence of trigger, inhibit end and event expiry); non-trivial = history with >= 1 deferred (inhibited) transmission, event "
        "expiry or n-th-SYNC transmission; distinct by script")
ASSUMPTIONS = ["times are whole numbers of ticks (10 kHz timer: 100 us = 1 tick; 1 MHz timer: 100 ticks)", "first event-timer expiry after activation accepted in [E, E+CO_TPDO_N-1]",
               "RTR and transmission types 0, 241..253 are not generated", "synchronous TPDOs are not triggered by the application and map no asynchronous objects (the property does not say what such a trigger does)",
               "the inhibit time is only changed while the node is not OPERATIONAL"]
VARIANTS = ["asan", "asanp"]

PREOP, OP, STOP = 2, 3, 4
NT = 4


class TP:
    def __init__(self, num, cobid, typ, inhibit, event, maps):
        self.num, self.cobid, self.typ, self.inhibit, self.event, self.maps = num, cobid, typ, inhibit, event, maps
        self.reset_runtime()

    def reset_runtime(self):
        self.active = False
        self.inh_until = None
        self.pending = False
        self.ev_deadline = None
        self.ev_window = None
        self.sync_cnt = 0
        self.I = self.E = 0

    def valid(self):
        return not (self.cobid & 0x80000000)


class TModel:
    def __init__(self, nid, objs, tps, units):
        self.nid, self.objs, self.tps = nid, objs, tps      # objs: {(idx,sub): [width, flags, value]}
        self.mode = PREOP
        self.inh_unit, self.ev_unit = units                 # ticks per 100us, ticks per ms
        self.out = []                                       # expected frames of the current step: (tick, id, data)
        self.stats = {"deferred": 0, "event": 0, "sync": 0, "frames": 0}
        self.sent_this_tick = {}
        self.nt = NT                                        # CO_TPDO_N of the build

    def frame(self, tp):
        data = b""
        for (idx, sub, bits) in tp.maps:
            w, fl, v = self.objs[(idx, sub)]
            data += (v & ((1 << bits) - 1)).to_bytes(bits // 8, "little")
        return (tp.cobid & 0x7FF) , data

    def activate(self, tp, t):
        tp.reset_runtime()
        if self.mode == OP and tp.valid():
            tp.active = True
            tp.I = tp.inhibit * self.inh_unit if tp.typ >= 254 else 0      # a synchronous TPDO goes out on every n-th SYNC, whatever 18xxh:3 says
            tp.E = tp.event * self.ev_unit if tp.typ >= 254 else 0
            if tp.E > 0:
                tp.ev_window = (t + tp.E, t + tp.E + self.nt - 1)

    def enter_op(self, t):
        for tp in self.tps:
            self.activate(tp, t)

    def leave_op(self):
        for tp in self.tps:
            tp.active = False

    def send(self, tp, t, cause):
        if not tp.active or self.mode != OP:
            return
        if tp.inh_until is not None and t < tp.inh_until:
            if not tp.pending:
                self.stats["deferred"] += 1
            tp.pending = True
            return
        cid, data = self.frame(tp)
        self.out.append((t, cid, data))
        self.sent_this_tick[tp.num] = t
        self.stats["frames"] += 1
        if cause in self.stats:
            self.stats[cause] += 1
        tp.inh_until = t + tp.I if tp.I > 0 else None
        tp.ev_window = None
        tp.ev_deadline = t + tp.E if tp.E > 0 else None

    def trigger_obj(self, key, t):
        for tp in self.tps:
            if any((i, s) == key for (i, s, b) in tp.maps):
                self.send(tp, t, "trigger")

    def write_obj(self, key, value, t):
        w, fl, old = self.objs[key]
        value &= (1 << (8 * w)) - 1
        self.objs[key][2] = value
        if (fl & A) and (fl & P) and old != value:
            self.trigger_obj(key, t)

    def sync(self, t):
        for tp in self.tps:
            if tp.active and tp.typ <= 240 and tp.typ >= 1:
                tp.sync_cnt += 1
                if tp.sync_cnt == tp.typ:
                    tp.sync_cnt = 0
                    self.send(tp, t, "sync")

    def advance(self, t0, t1, observed):
        """Timer processing for ticks t0+1..t1; `observed` {tick: [(id, data)]} resolves the open first-event window."""
        # only ticks where something can happen
        while True:
            cand = []
            for tp in self.tps:
                if not tp.active:
                    continue
                for x in (tp.inh_until, tp.ev_deadline):
                    if x is not None and t0 < x <= t1:
                        cand.append(x)
                if tp.ev_window is not None:
                    lo, hi = tp.ev_window
                    for x in range(max(lo, t0 + 1), min(hi, t1) + 1):
                        cand.append(x)
            if not cand:
                return
            t = min(cand)
            for tp in self.tps:
                if not tp.active:
                    continue
                sent_before = self.sent_this_tick.get(tp.num) == t
                # inhibit end first
                if tp.inh_until == t:
                    tp.inh_until = None
                    if tp.pending:
                        tp.pending = False
                        self.send(tp, t, None)
                if tp.ev_deadline == t:
                    tp.ev_deadline = None
                    if self.sent_this_tick.get(tp.num) != t:
                        self.send(tp, t, "event")
                elif tp.ev_window is not None and tp.ev_window[0] <= t <= tp.ev_window[1]:
                    cid = tp.cobid & 0x7FF
                    seen = any(c == cid for (c, d) in observed.get(t, []))
                    if seen or t == tp.ev_window[1]:
                        tp.ev_window = None
                        if self.sent_this_tick.get(tp.num) != t:
                            self.send(tp, t, "event")
            t0 = t


def gen_world(rng, sweep=None, nt=NT, nr=4):
    nid = rng.choice([1, 2, 50])
    freq = 10000 if (sweep is not None or rng.random() < 0.7) else 1000000      # 1 MHz: inhibit / event times of 6.6 ms and more exceed 65535 ticks
    objs = {}
    cfg = Config(nodeid=nid, freq=freq, tmrnum=32)
    gen.add_mandatory(cfg, hb=0, sync_id=0x80, ssdo=1, ssdo_rw=False)
    pool = []
    for i in range(10):
        w = rng.choice([1, 1, 2, 2, 4, 4])
        fl = RW | P | (A if rng.random() < 0.6 else 0)
        v = rng.getrandbits(8 * w)
        objs[(0x2100, i)] = [w, fl, v]
        cfg.add(var(0x2100, i, fl, w, v))
        pool.append((0x2100, i, w))
    # mapped objects larger than 4 bytes (the application copies them in COTpdoReadData); never changed by the workload
    if sweep is None:
        for i, w in enumerate((5, 6)):
            d = gen.rand_bytes(rng, w)
            objs[(0x2110, i)] = [w, RW | P, int.from_bytes(d, "little")]
            cfg.add(S.domain(0x2110, i, w, d, flags=RW | P))
            pool.append((0x2110, i, w))
        # an object of a size no basic type has (UNSIGNED24 as user type): application's data as well, never changed by the workload
        v = rng.getrandbits(24)
        objs[(0x2120, 0)] = [3, RW | P, v]
        cfg.add(S.Obj(0x2120, 0, RW | P, "usr", "U", 3, 0, 0, 0, v))
        pool.append((0x2120, 0, 3))
    tps = []
    n = rng.randint(1, nt) if sweep is None else 1
    rbase, rstep = (0x200, 0x100) if nt <= 4 else (0x400, 0x40)        # more than four channels: identifiers in blocks of 40h, RPDOs above the TPDOs
    for num in range(n):
        maps, total = [], 0
        cand = pool[:]
        rng.shuffle(cand)
        typ0 = rng.choice([254, 255, 254, 255, 1, 2, 3, 10, 240])
        if typ0 <= 240:
            # what an application trigger or a changed asynchronous object does to a SYNCHRONOUS TPDO is not stated by the property:
            # synchronous TPDOs map objects without the asynchronous flag only and are never triggered by number
            cand = [c_ for c_ in cand if not (objs[(c_[0], c_[1])][1] & A)] or cand[:0]
        for (idx, sub, w) in cand[:rng.randint(1, 8)]:
            bits = 8 * w
            if w == 4 and rng.random() < 0.3:
                bits = 24
            if total + bits // 8 > 8:
                continue
            maps.append((idx, sub, bits)); total += bits // 8
            if sweep is None and rng.random() < 0.12 and total + bits // 8 <= 8:
                maps.append((idx, sub, bits)); total += bits // 8        # the same object in two slots of one TPDO: one change, one transmission
        if sweep is not None:
            typ, inh, ev = 254, sweep[0], sweep[1]
            maps = [(0x2100, 0, 8 * objs[(0x2100, 0)][0])]
            objs[(0x2100, 0)][1] |= A
            cfg.objs = [o for o in cfg.objs if not (o.idx == 0x2100 and o.sub == 0)]
            cfg.add(var(0x2100, 0, objs[(0x2100, 0)][1], objs[(0x2100, 0)][0], objs[(0x2100, 0)][2]))
        else:
            typ = typ0
            inh = rng.choice([0, 0, 1, 2, 3, 5, 10, 50] + ([700, 1000] if freq > 10000 else []))
            ev = rng.choice([0, 0, 1, 2, 5, 10] + ([70, 100] if freq > 10000 else []))        # ms -> 10 ticks each at 10 kHz
        cob = 0x40000180 + (0x100 if nt <= 4 else 0x40) * num
        if rng.random() < 0.1 and sweep is None:
            cob |= 0x80000000
        no_inh = sweep is None and rng.random() < 0.15      # a record without the optional inhibit entry: no inhibit time, everything else as stored
        if no_inh:
            inh = 0
        gen.add_tpdo(cfg, num, cob, typ, inh, ev, [gen.maplink(*m) for m in maps], with_inhibit=not no_inh)
        tps.append(TP(num, cob + nid, typ, inh, ev, maps))
    # an asynchronous RPDO that writes some of the same objects: a value changed by a received PDO triggers the TPDO as well
    rmap = []
    if sweep is None and rng.random() < 0.6:
        total = 0
        cand = pool[:]
        rng.shuffle(cand)
        for (idx, sub, w) in cand[:rng.randint(1, 3)]:
            if total + w <= 8:
                rmap.append((idx, sub, 8 * w)); total += w
        gen.add_rpdo(cfg, 0, rbase, 255, [gen.maplink(*m) for m in rmap])
    # RPDOs that map nothing (mostly synchronous) with the numbers of the TPDOs: switching them off and on concerns no TPDO
    cfg.rempty = []
    if sweep is None:
        for num in range(nr):
            if (num > 0 or not rmap) and rng.random() < 0.6:
                gen.add_rpdo(cfg, num, rbase + rstep * num, rng.choice([1, 1, 0, 240, 255]), [])
                cfg.rempty.append([num, rbase + rstep * num + nid])
    cfg.finalize()
    cfg.scale = freq // 10000
    units = (cfg.scale, 10 * cfg.scale)
    cfg.rmap = rmap
    cfg.rbase = rbase
    cfg.nt = nt
    return cfg, nid, objs, tps, units


def run_history(res, exe, rng, first, sweep=None, nt=NT, nr=4):
    cfg, nid, objs, tps, units = gen_world(rng, sweep, nt, nr)
    if sweep is not None:
        # event time in ticks is needed for the sweep: use a 1 kHz node where 1 ms = 1 tick and inhibit unit 100us is not exact -> keep 10 kHz, event in ms = 10 ticks
        pass
    sim = S.Sim(exe, cfg)
    m = TModel(nid, objs, tps, units)
    m.nt = nt
    script = []
    ids = set(tp.cobid & 0x7FF for tp in tps)

    def fail(key, msg, exp=None, obs=None):
        desc = "; ".join("TPDO%d id %x type %d inhibit %d event %d ms map %r" % (t.num, t.cobid, t.typ, t.inhibit, t.event, t.maps) for t in tps)
        res.violation("c12/" + key, "%s: %s | script: %s" % (desc, msg, "; ".join(script[-8:])), sim=sim, expected=exp, observed=obs)

    def step(cmdline=None, evs=None, ignore=()):
        """Compare the TPDO frames of one step."""
        got = []
        for (t, cid, dlc, d, f) in S.txs(evs):
            if cid not in (0x580 + nid, 0x700 + nid):
                if dlc != len(d):
                    return fail("dlc", "frame %x dlc %d" % (cid, dlc))
                got.append((t, cid, d))
        for iv in S.invs(evs):
            return fail("inv", "invariant " + iv)
        want = sorted(m.out)
        m.out = []
        if sorted(got) != want:
            g, w = sorted(got), want
            kind = "missing" if len(g) < len(w) else "extra" if len(g) > len(w) else ("data" if [x[:2] for x in g] == [x[:2] for x in w] else "timing")
            k0 = next((i for i in range(min(len(g), len(w))) if g[i] != w[i]), min(len(g), len(w)))
            g, w = g[max(0, k0 - 2):k0 + 4], w[max(0, k0 - 2):k0 + 4]
            return fail("emissions/" + kind, "first difference at emission #%d: emitted %r, reference %r" % (k0, [(t, "%x" % c, d.hex()) for t, c, d in g], [(t, "%x" % c, d.hex()) for t, c, d in w]),
                        [(t, "%x" % c, d.hex()) for t, c, d in w], [(t, "%x" % c, d.hex()) for t, c, d in g])
        # COPdoTransmit must have seen each frame
        if len(S.cbs(evs, "pdotx")) != len(got):
            return fail("callback", "COPdoTransmit called %d times for %d frames" % (len(S.cbs(evs, "pdotx")), len(got)))
        return True

    try:
        nsteps = rng.choice([30, 60, 100]) if sweep is None else 0
        ops = []
        if sweep is not None:
            inh, ev, off = sweep
            ops = [("nmt", 1), ("tick", 1), ("trig", 0), ("tick", off), ("wrchange", (0x2100, 0)), ("tick", 1), ("wrchange", (0x2100, 0))]
            # ... then, inside the next period, a re-configuration that has to find and stop the timers started at the coincidence
            k = rng.randrange(4)
            mid = rng.choice([1, 3, max(1, inh - 1), max(1, ev * 10 - 1), inh + 2])
            ops += [("tick", mid)] + {0: [], 1: [("event", 0, ev)], 2: [("cobid", 0), ("cobid", 0)], 3: [("nmt", 128), ("nmt", 1)]}[k]
            ops += [("tick", 150), ("trig", 0), ("tick", 200)]
            nsteps = len(ops)
        else:
            ops = None
        for i in range(nsteps):
            now = sim.tick
            if ops is not None:
                op = ops[i]
            else:
                x = rng.random()
                if x < 0.30:
                    op = ("tick", rng.choice([1, 1, 2, 3, 5, 9, 10, 11, 20, 50, 100, 130]) * cfg.scale + (rng.choice([0, 0, 1, -1]) if cfg.scale > 1 else 0))
                    if cfg.scale > 1 and rng.random() < 0.2:
                        op = ("tick", rng.choice([700, 1000, 1100]) * cfg.scale)
                elif x < 0.45:
                    op = ("wrchange", rng.choice([k_ for k_ in objs if objs[k_][0] in (1, 2, 4)]))
                elif x < 0.50:
                    op = ("wrsame", rng.choice([k_ for k_ in objs if objs[k_][0] in (1, 2, 4)]))
                elif x < 0.58:
                    op = ("sdowr", rng.choice([k_ for k_ in objs if objs[k_][0] in (1, 2, 4)]))
                elif x < 0.66:
                    op = ("trig", rng.randrange(cfg.nt)) if rng.random() < 0.85 else ("trigcb", rng.randrange(cfg.nt))
                elif x < 0.72:
                    op = ("trigobj", rng.choice(list(objs)))
                elif x < 0.84:
                    op = ("sync",)
                elif x < 0.88 and cfg.rmap:
                    op = ("rpdo",)
                elif x < 0.93:
                    op = ("nmt", rng.choice([1, 1, 128, 2, 130, 1]))
                elif x < 0.95:
                    op = ("pending", rng.choice(["preop", "stop", "invalidate", "reset"]))
                elif x < 0.965:
                    op = ("event", rng.randrange(len(tps)), rng.choice([0, 1, 3, 10]))
                elif x < 0.985:
                    op = ("remap", rng.randrange(len(tps)))
                elif x < 0.993 and cfg.rempty:
                    op = ("rpdovalid", rng.randrange(len(cfg.rempty)))
                else:
                    op = ("cobid", rng.randrange(len(tps)))
            m.sent_this_tick = {k: v for k, v in m.sent_this_tick.items() if v == now}
            if op[0] == "tick":
                script.append("tick %d @%d" % (op[1], now))
                if op[1] == 0:
                    continue
                evs = sim.cmd("tick %d" % op[1])
                obs = {}
                for (t, cid, dlc, d, f) in S.txs(evs):
                    obs.setdefault(t, []).append((cid, d))
                m.advance(now, sim.tick, obs)
            elif op[0] in ("wrchange", "wrsame"):
                key = op[1]
                w, fl, v = objs[key]
                nv = v if op[0] == "wrsame" else (v + rng.randint(1, 200)) & ((1 << (8 * w)) - 1)
                script.append("wr %04x:%d = %x (was %x) @%d" % (key[0], key[1], nv, v, now))
                m.write_obj(key, nv, now)
                evs = sim.cmd("wr %x %x %d %x" % (key[0], key[1], w, nv))
            elif op[0] == "sdowr":
                if m.mode not in (PREOP, OP):
                    continue
                key = op[1]
                w, fl, v = objs[key]
                nv = rng.getrandbits(8 * w)
                script.append("sdo wr %04x:%d = %x (was %x) @%d" % (key[0], key[1], nv, v, now))
                m.write_obj(key, nv, now)
                code, evs = S.sdo_write(sim, nid, key[0], key[1], nv, w)
                if code is not None:
                    fail("sdo", "write to application object refused: %r" % code); return
            elif op[0] == "trig":
                if op[1] < len(tps) and tps[op[1]].typ <= 240:
                    continue
                script.append("trigger TPDO%d @%d" % (op[1], now))
                nout = len(m.out)
                if op[1] < len(tps):
                    m.send(tps[op[1]], now, "trigger")
                refused = len(m.out) > nout and rng.random() < 0.15
                fullpool = []
                tp_ = tps[op[1]] if op[1] < len(tps) else None
                if (not refused) and len(m.out) > nout and tp_ is not None and tp_.I > 0 and tp_.E == 0 and rng.random() < 0.3:
                    # the timer pool is completely in use when this TPDO goes out (application timers hold every free block): the frame is
                    # sent, the inhibit time cannot be started - so the TPDO is not inhibited afterwards, the next trigger goes out at once
                    while len(fullpool) < 40:
                        r_ = sim.ret("tmrcreate 600000 0 %d" % (16 + len(fullpool)))
                        if r_ is None or int(r_[0]) < 0:
                            break
                        fullpool.append(int(r_[0]))
                    tp_.inh_until = None
                    script[-1] += " (timer pool full)"
                    res.counters["tpdo_sent_with_full_timer_pool"] += 1
                if refused:
                    # the CAN driver refuses this frame (transmit queue full): that one frame is lost, everything else - inhibit time,
                    # event time, later triggers - goes on as if it had been sent
                    sim.cmd("fault cansend 1")
                    script[-1] += " (frame refused by the driver)"
                    res.counters["tpdo_frames_refused_by_driver"] += 1
                evs = sim.cmd("trigpdo %d" % op[1])
                if refused:
                    sim.cmd("fault cansend 0")
                for id_ in fullpool:
                    sim.cmd("tmrdelete %d" % id_)
            elif op[0] == "trigcb":
                # API call from inside COPdoTransmit: while the frame of an event-driven TPDO goes out the application triggers the same
                # TPDO again - with an inhibit time that is one more transmission when the inhibit time ends, without one it follows at once
                k = op[1]
                if k >= len(tps):
                    continue
                tp = tps[k]
                if tp.typ < 254 or not tp.active or m.mode != OP or (tp.inh_until is not None and now < tp.inh_until):
                    continue
                script.append("trigger TPDO%d @%d, triggered again inside COPdoTransmit" % (k, now))
                m.send(tp, now, "trigger")
                m.send(tp, now, "trigger")
                sim.cmd("pdotxcb %d" % k)
                evs = sim.cmd("trigpdo %d" % k)
                if len(S.cbs(evs, "pdotxtrig")) != 1:
                    fail("harness/txcb", "COPdoTransmit was not called for the triggered TPDO%d" % k); return
                res.counters["triggers_inside_transmit_callback"] += 1
            elif op[0] == "trigobj":
                if any(tp.typ <= 240 and any((i_, s_) == op[1] for (i_, s_, b_) in tp.maps) for tp in tps):
                    continue
                script.append("trigger object %04x:%d @%d" % (op[1][0], op[1][1], now))
                m.trigger_obj(op[1], now)
                evs = sim.cmd("trigobj %x %x" % op[1])
            elif op[0] == "rpdo":
                data = gen.rand_bytes(rng, 8)
                if rng.random() < 0.3:
                    # same values as stored: no change, no trigger
                    data = b"".join((objs[(i_, s_)][2]).to_bytes(b_ // 8, "little") for (i_, s_, b_) in cfg.rmap).ljust(8, b"\0")
                script.append("RPDO %s @%d" % (data.hex(), now))
                if m.mode == OP:
                    pos = 0
                    for (i_, s_, b_) in cfg.rmap:
                        m.write_obj((i_, s_), int.from_bytes(data[pos:pos + b_ // 8], "little"), now)
                        pos += b_ // 8
                    res.counters["rpdo_writes_in_operational"] += 1
                evs = sim.rx(cfg.rbase + nid, data)
            elif op[0] == "sync":
                script.append("SYNC @%d" % now)
                if m.mode == OP:
                    m.sync(now)
                evs = sim.rx(0x80, b"")
            elif op[0] == "nmt":
                cs = op[1]
                script.append("nmt %d @%d" % (cs, now))
                old = m.mode
                evs = sim.rx(0, bytes([cs, nid]))
                if cs == 1:
                    m.mode = OP
                    if old != OP:
                        m.enter_op(now)
                elif cs == 128:
                    m.mode = PREOP; m.leave_op()
                elif cs == 2:
                    m.mode = STOP; m.leave_op()
                else:
                    m.mode = PREOP; m.leave_op()
            elif op[0] == "pending":
                # the nearest inhibit end / event expiry has been served by the tick interrupt but is not processed yet when the node
                # leaves OPERATIONAL (or the COB-ID of that TPDO is marked invalid); then the timer processing runs. A TPDO is
                # transmitted only in OPERATIONAL and only while its COB-ID is valid: the pending transmission must not happen.
                if m.mode != OP or any(tp.active and tp.ev_window is not None for tp in tps):
                    continue
                cand = [(x_, tp) for tp in tps if tp.active for x_ in (tp.inh_until, tp.ev_deadline) if x_ is not None and x_ > now]
                if not cand:
                    continue
                T, tgt = min(cand, key=lambda c: c[0])
                if T - now > 300 * cfg.scale:
                    continue
                what = op[1]
                script.append("svc %d (timer event of TPDO%d pending @%d); %s; tproc" % (T - now, tgt.num, T, what))
                evs = sim.cmd("svc %d" % (T - now))
                m.advance(now, T - 1, {})
                if S.txs(evs) or m.out:
                    fail("harness/pending", "frames during the tick service: %r / model %r" % (S.txs(evs), m.out)); return
                if what == "invalidate":
                    newv = tgt.cobid | 0x80000000
                    code, evs = S.sdo_write(sim, nid, 0x1800 + tgt.num, 1, newv, 4)
                    if code is not None:
                        fail("cobid-write-refused", "COB-ID invalidation refused: %r" % code); return
                    tgt.cobid = newv
                    m.activate(tgt, T)
                else:
                    cs = {"preop": 128, "stop": 2, "reset": 130}[what]
                    evs = sim.rx(0, bytes([cs, nid]))
                    m.mode = STOP if cs == 2 else PREOP
                    m.leave_op()
                evs = evs + sim.cmd("tproc")
                m.sent_this_tick = {}
                m.advance(T - 1, T, {})
                res.counters["pending_event_cancelled_by_" + what] += 1
            elif op[0] == "event":
                _, k, ms = op
                tp = tps[k]
                if m.mode != OP:
                    continue
                if tp.active and tp.inh_until is not None:
                    continue          # write to 18xx:5 while the inhibit time runs: known finding, exercised by its own witness
                script.append("write 18%02x:5 = %d ms @%d" % (k, ms, now))
                code, evs = S.sdo_write(sim, nid, 0x1800 + k, 5, ms, 2)
                if code is not None:
                    fail("event-write-refused", "write to event time refused: %r" % code); return
                tp.event = ms
                if tp.active and tp.typ >= 254:
                    tp.E = ms * m.ev_unit
                    tp.ev_window = None
                    tp.ev_deadline = now + tp.E if tp.E > 0 else None
            elif op[0] == "rpdovalid":
                if m.mode == STOP:
                    continue
                r_ = cfg.rempty[op[1]]
                r_[1] ^= 0x80000000
                script.append("write 14%02x:1 = %x @%d" % (r_[0], r_[1], now))
                code, evs = S.sdo_write(sim, nid, 0x1400 + r_[0], 1, r_[1], 4)
                if code is not None:
                    fail("rpdo-cobid-write-refused", "COB-ID valid toggle of RPDO%d refused: %r" % (r_[0], code)); return
                res.counters["rpdo_switched_between_syncs"] += 1
            elif op[0] == "remap":
                # CiA 301 re-mapping while OPERATIONAL: invalidate, count 0, new entries, new count (mostly fewer than before), re-validate;
                # the other TPDOs - their links to changed objects included - are not touched
                k = op[1]
                tp = tps[k]
                if m.mode != OP:
                    continue
                cand = [(i_, s_, 8 * objs[(i_, s_)][0]) for (i_, s_) in objs if objs[(i_, s_)][0] in (1, 2, 4) and (tp.typ >= 254 or not (objs[(i_, s_)][1] & A))]
                rng.shuffle(cand)
                nm, tot = [], 0
                for c_ in cand[:rng.choice([0, 1, 1, 2, max(0, len(tp.maps) - 1), len(tp.maps) + 1])]:
                    if tot + c_[2] // 8 <= 8:
                        nm.append(c_); tot += c_[2] // 8
                script.append("re-map TPDO%d to %r @%d" % (k, nm, now))
                seq = []
                if tp.valid():
                    seq.append((0x1800 + k, 1, tp.cobid | 0x80000000, 4))
                seq.append((0x1A00 + k, 0, 0, 1))
                seq += [(0x1A00 + k, j_ + 1, gen.maplink(*m_), 4) for j_, m_ in enumerate(nm)]
                seq.append((0x1A00 + k, 0, len(nm), 1))
                seq.append((0x1800 + k, 1, tp.cobid & 0x7FFFFFFF, 4))
                okk = True
                for n_, (i_, s_, v_, w_) in enumerate(seq):
                    code, evs = S.sdo_write(sim, nid, i_, s_, v_, w_)
                    if code is not None:
                        fail("remap-write-refused", "write %x to %04x:%d of the re-mapping sequence refused: %r" % (v_, i_, s_, code)); return
                    if i_ == 0x1800 + k:
                        tp.cobid = v_
                        if not tp.valid():
                            m.activate(tp, now)
                    if n_ < len(seq) - 1 and step(evs=evs) is not True:
                        return
                res.counters["remapped_with_fewer_objects"] += 1 if len(nm) < len(tp.maps) else 0
                tp.maps = nm
                m.activate(tp, now)
                res.counters["remapped_while_operational"] += 1
            else:
                k = op[1]
                tp = tps[k]
                if m.mode != OP:
                    continue
                script.append("toggle COB-ID valid of TPDO%d @%d" % (k, now))
                newv = tp.cobid ^ 0x80000000
                code, evs = S.sdo_write(sim, nid, 0x1800 + k, 1, newv, 4)
                if code is not None:
                    fail("cobid-write-refused", "COB-ID valid toggle refused: %r" % code); return
                tp.cobid = newv
                m.activate(tp, now)
            if step(evs=evs) is not True:
                return
        res.evals += 1
        for k, v in m.stats.items():
            res.counters[k] += v
        if m.stats["deferred"] or m.stats["event"] or m.stats["sync"]:
            res.nt(tuple(script))
        if first:
            res.sample({"tpdos": [(t.num, "%x" % t.cobid, t.typ, t.inhibit, t.event, t.maps) for t in tps], "script_head": script[:14], "stats": m.stats})
    except S.SimDied as e:
        res.violation("c12/crash/" + e.signature, "executor died: " + e.signature, sim=sim, detail=e.detail[-2000:])
    finally:
        sim.close()


def run_known_witness(res, exe):
    """Write to 18xx:5 while the inhibit time runs (pinned by the repository's unit test pdo-event/write/stop): the inhibit time must keep running."""
    cfg = Config(nodeid=1, freq=10000, tmrnum=16)
    gen.add_mandatory(cfg, hb=0, ssdo=1, ssdo_rw=False)
    cfg.add(var(0x2100, 0, RW | P | A, 1, 1))
    gen.add_tpdo(cfg, 0, 0x40000180, 254, 50, 0, [gen.maplink(0x2100, 0, 8)])
    sim = S.Sim(exe, cfg)
    try:
        sim.rx(0, bytes([1, 1]))
        sim.cmd("trigpdo 0")                      # sent at tick 0, inhibit until tick 50
        sim.cmd("tick 10")
        sim.cmd("wr 2100 0 1 55")                 # change at tick 10 -> pending
        code, evs = S.sdo_write(sim, 1, 0x1800, 5, 0, 2)   # event-time write during the inhibit time
        early = [t for (t, cid, dlc, d, f) in S.txs(evs) if cid == 0x181]
        evs2 = sim.cmd("tick 60")
        later = [t for (t, cid, dlc, d, f) in S.txs(evs2) if cid == 0x181]
        res.evals += 1
        if early or later != [50]:
            res.violation("c12/inhibit/event-time-write-during-inhibit",
                          "trigger at tick 0 (inhibit 50 ticks), change at tick 10, write to 1800h:5 at tick 10: TPDO sent at %r, reference [50]" % (early + later), sim=sim)
    finally:
        sim.close()


def plan(tier, seed):
    q = tier == "quick"
    items = [("hist", i, 40 if q else 400) for i in range(48 if q else 300)]
    items += [("hist6", i, 30 if q else 300) for i in range(12 if q else 80)]       # build with CO_TPDO_N=6 / CO_RPDO_N=2
    items += [("sweep", i, 0) for i in range(7)]
    items += [("witness", 0, 0)]
    return items


def work(item, ctx):
    res = F.Res()
    exe = ctx["exes"]["asan"]
    if item[0] == "hist":
        for h in range(item[2]):
            rng = random.Random(F.seed_for(ctx["seed"], "C12", item[1], h))
            run_history(res, exe, rng, item[1] == 0 and h == 0)
    elif item[0] == "hist6":
        for h in range(item[2]):
            rng = random.Random(F.seed_for(ctx["seed"], "C12six", item[1], h))
            run_history(res, ctx["exes"]["asanp"], rng, False, nt=6, nr=2)
            res.counters["histories_with_six_tpdo_channels"] += 1
    elif item[0] == "sweep":
        inh = item[1]
        for ev in range(0, 7):
            for off in range(0, 7):
                rng = random.Random(F.seed_for(ctx["seed"], "C12s", inh, ev, off))
                run_history(res, exe, rng, False, sweep=(inh * 10, ev, off * 10 + (inh + ev + off) % 3 - 1 if off else 0))
                res.states.add((inh, ev, off))
    else:
        run_known_witness(res, exe)
    return res


def selftest(ctx):
    objs = {(0x2100, 0): [1, RW | P | A, 5]}
    tp = TP(0, 0x181, 254, 3, 0, [(0x2100, 0, 8)])
    m = TModel(1, objs, [tp], (1, 10))
    m.mode = OP
    m.enter_op(0)
    m.send(tp, 0, "trigger")
    m.write_obj((0x2100, 0), 6, 1)
    m.advance(1, 10, {})
    assert m.out == [(0, 0x181, b"\x05"), (3, 0x181, b"\x06")], m.out


def finish(total, tier):
    c = total.counters
    p = []
    if c["deferred"] < 50 or c["event"] < 200 or c["sync"] < 100:
        p.append("core mechanisms hardly exercised: %r" % dict(c))
    if c["tpdo_frames_refused_by_driver"] < 100:
        p.append("only %d TPDO frames refused by the driver" % c["tpdo_frames_refused_by_driver"])
    if c["remapped_with_fewer_objects"] < 100 or c["rpdo_switched_between_syncs"] < 100:
        p.append("too few re-mappings with fewer objects (%d) / RPDO switches between SYNCs (%d)" % (c["remapped_with_fewer_objects"], c["rpdo_switched_between_syncs"]))
    return p


def replay(case, ctx):
    return F.replay_log(case, ctx)
