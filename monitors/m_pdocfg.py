"""C14 - PDO reconfiguration keeps every accepted configuration valid."""
import random
import framework as F
import sim as S
import gen
from sim import Config, var, W, R, P, A, N, D, RW

PROP = "C14"
LEVEL = "exploration"
RULE = ("sequences of expedited SDO writes to 14xx/16xx/18xx/1Axx sub-indices with values from a covering domain (valid/invalid bit, other "
        "identifier, extended bit, RTR-allowed; transmission types; mapping entries naming existing / non-existing / non-mappable / "
        "wrong-access objects with 8/16/24/32 bit; counts 0..9) interleaved with NMT start/stop; every verdict and abort code is compared with "
        "the CiA 301 precondition model, every write is read back (refused => unchanged, accepted => stored), and after every activation "
        "(entering OPERATIONAL, re-validation while OPERATIONAL) the live PDO tables are checked (<= 8 bytes, all targets exist, as stored) "
        "and probed behaviourally (trigger / received frame; a SYNC right after the activation of a synchronous RPDO that had a frame waiting "
        "under its earlier settings changes nothing); frames for RPDOs arrive between the writes; the write-kind x PDO-state matrix is enumerated; non-trivial = sequence with "
        ">= 1 refused and >= 1 accepted write; distinct by script")
ASSUMPTIONS = ["abort code of 'PDO currently valid / count not zero' refusals is not constrained", "re-writing an identical valid COB-ID may be refused",
               "an entry naming fewer bits than the object has may be refused or accepted (then it must take effect as stored); dummy entries are not written through SDO",
               "whether a count that includes unset (zero) entries is accepted is not constrained; such a PDO must stay inactive"]
VARIANTS = ["asan", "asanp", "asanq"]

PREOP, OP = 2, 3
E_MAP, E_MAPN, E_RANGE = 0x06040041, 0x06040042, 0x06090030


class Pdo:
    def __init__(self, tx, num, nid, cob, typ, maps):
        self.tx, self.num, self.nid = tx, num, nid
        self.cob, self.typ = cob, typ
        self.count = len(maps)
        self.ent = list(maps) + [0] * (8 - len(maps))
        self.inhibit = self.event = 0

    def comm(self):
        return (0x1800 if self.tx else 0x1400) + self.num

    def mapi(self):
        return (0x1A00 if self.tx else 0x1600) + self.num

    def valid(self):
        return not (self.cob & 0x80000000)

    def degenerate(self):
        return any(self.ent[i] == 0 for i in range(self.count))


class World:
    def __init__(self, rng, npdo, nr=None, nt=None):
        nr = npdo if nr is None else nr      # channel counts of the build (CO_RPDO_N / CO_TPDO_N): every channel has its records
        nt = npdo if nt is None else nt
        self.rng = rng
        self.nid = nid = rng.choice([1, 4, 90])
        cfg = Config(nodeid=nid, freq=1000, tmrnum=16)
        gen.add_mandatory(cfg, hb=0, sync_id=0x80, ssdo=1, ssdo_rw=False)
        self.objs = {}
        def add(sub, fl, w):
            v = rng.getrandbits(8 * w)
            cfg.add(var(0x2300, sub, fl, w, v)); self.objs[(0x2300, sub)] = [w, fl, v]
        add(0, RW | P, 1); add(1, RW | P, 2); add(2, RW | P, 4); add(3, RW | P, 1); add(4, RW | P, 2); add(5, RW | P, 4)
        add(6, RW, 4)            # not mappable
        add(7, R | P, 2)         # read-only: TPDO ok, RPDO wrong access
        add(8, W | P, 2)         # write-only: RPDO ok, TPDO wrong access
        self.big = gen.rand_bytes(rng, 8)
        cfg.add(S.domain(0x2301, 0, 8, self.big, flags=RW | P))      # an 8-byte object (mapped through the application callbacks)
        cfg.add(S.Obj(0x2303, 0, RW | P, "usr", "U", 3, 0, 0, 0, 0x665544))    # a 3-byte object (UNSIGNED24 as user type), application's data as well
        self.pdos = []
        for n in range(max(nr, nt)):
            good_r = [gen.maplink(0x2300, s, 8 * self.objs[(0x2300, s)][0]) for s in (0, 1, 2)]
            good_t = [gen.maplink(0x2300, s, 8 * self.objs[(0x2300, s)][0]) for s in (3, 4, 5)]
            mr = good_r[:rng.randint(0, 3)]
            mt = good_t[:rng.randint(0, 3)]
            cr = 0x200 + 0x80 * n + (0x80000000 if rng.random() < 0.4 else 0)
            ct = 0x40000180 + 0x100 * n + (0x80000000 if rng.random() < 0.4 else 0)
            if nr == nt:
                cr = (cr & 0x80000000) | (0x200 + 0x100 * n)
            else:
                cr = (cr & 0x80000000) | (0x400 + 0x40 * n)      # up to six channels: identifiers of their own, disjoint, below the SDO range
                ct = (ct & 0xC0000000) | (0x180 + 0x40 * n)
            if n < nr:
                gen.add_rpdo(cfg, n, cr, 255, mr)
                self.pdos.append(Pdo(False, n, nid, cr + nid, 255, mr))
            if n < nt:
                gen.add_tpdo(cfg, n, ct, 254, 0, 0, mt)
                self.pdos.append(Pdo(True, n, nid, ct + nid, 254, mt))
        cfg.finalize()
        self.cfg = cfg
        self.mode = PREOP
        self.pending = {}        # RPDO number -> frame received by an active synchronous RPDO, waiting for its SYNC

    def entry_verdict(self, p, v):
        idx, sub, bits = v >> 16, (v >> 8) & 0xFF, v & 0xFF
        o = self.objs.get((idx, sub))
        if o is None:
            return E_MAP
        w, fl, _ = o
        if not (fl & P):
            return E_MAP
        if p.tx and not (fl & R):
            return E_MAP
        if (not p.tx) and not (fl & W):
            return E_MAP
        return None


def gen_write(rng, w, p):
    """-> (index, sub, width, value, kind)"""
    kind = rng.choice(["cob", "cob", "type", "entry", "entry", "entry", "count", "count", "inhibit", "event"])
    if kind in ("inhibit", "event") and not p.tx:
        kind = "type"
    if kind == "cob":
        cur = p.cob
        other = cur ^ 0x10          # (toggles between two identifiers of the channel's own block: identifiers of different channels never meet)
        v = rng.choice([cur ^ 0x80000000, cur ^ 0x80000000, cur, other | 0x80000000, other & ~0x80000000, cur | 0x20000000,
                        (cur ^ 0x80000000) | 0x20000000, cur ^ 0x40000000, (cur ^ 0x80000000) ^ 0x40000000])
        return p.comm(), 1, 4, v & 0xFFFFFFFF, kind
    if kind == "type":
        return p.comm(), 2, 1, rng.choice([0, 1, 10, 240, 254, 255]), kind
    if kind == "inhibit":
        return p.comm(), 3, 2, rng.choice([0, 10, 100]), kind
    if kind == "event":
        return p.comm(), 5, 2, rng.choice([0, 5, 50]), kind
    if kind == "entry":
        sub = rng.choice([0, 1, 2, 3, 4, 5, 6, 7, 8, 0, 3])
        bits = 8 * w.objs[(0x2300, sub)][0]
        if bits == 32 and rng.random() < 0.2:
            bits = 24
        elif bits > 8 and rng.random() < 0.15:
            bits = rng.choice([8, 16]) if bits == 32 else 8          # fewer bits than the object has: the first bytes of the object are mapped
        v = gen.maplink(0x2300, sub, bits)
        if rng.random() < 0.12:
            v = gen.maplink(rng.choice([0x2302, 0x2300, 0x1FFF]), rng.choice([0x20, 9, 0]), 8)
        elif rng.random() < 0.08:
            v = gen.maplink(0x2301, 0, rng.choice([15, 71, 1, 65, 12, 63]))         # bit lengths the byte-oriented mapping cannot honour
        elif rng.random() < 0.06:
            v = gen.maplink(0x2303, 0, rng.choice([32, 25, 12, 31, 40, 64]))        # more bits than the 3-byte object has, or no whole bytes
        return p.mapi(), rng.randint(1, 8), 4, v, kind
    return p.mapi(), 0, 1, rng.choice([0, 0, 1, 2, 3, 4, 5, 8, 9, 255]), kind


def expect(w, p, idx, sub, value, kind):
    """-> ('ok',) | ('abort', code or None) | ('open',)"""
    if kind == "cob":
        if value & 0x20000000:
            return ("abort", E_RANGE)
        if p.tx and not (value & 0x40000000):
            return ("abort", E_RANGE)
        if p.valid():
            if value & 0x80000000:
                if (value & 0x1FFFFFFF) != (p.cob & 0x1FFFFFFF):
                    return ("open",)
                return ("ok",)
            if value == p.cob:
                return ("open",)
            return ("abort", None)
        return ("ok",)
    if kind == "type":
        return ("ok",) if not p.valid() else ("abort", None)
    if kind in ("inhibit", "event"):
        return ("open",) if (p.valid() and kind == "inhibit") else ("ok",)
    if kind == "entry":
        if p.valid() or p.count != 0:
            return ("abort", None)
        if (value >> 16, (value >> 8) & 0xFF) == (0x2303, 0):
            return ("abort", None) if ((value & 0xFF) % 8 or (value & 0xFF) > 24) else ("open",)
        if (value >> 16, (value >> 8) & 0xFF) == (0x2301, 0):
            # 8-byte object: a length that is no whole number of bytes, or exceeds the object, cannot take effect as stored
            return ("abort", None) if ((value & 0xFF) % 8 or (value & 0xFF) > 64) else ("open",)
        c = w.entry_verdict(p, value)
        if c is None:
            wd = w.objs[(value >> 16, (value >> 8) & 0xFF)][0]
            if (value & 0xFF) != 8 * wd and not (wd == 4 and (value & 0xFF) == 24):
                return ("open",)      # a shorter field of a wider object: may be refused; if accepted it has to take effect as stored
        return ("abort", c) if c else ("ok",)
    if kind == "count":
        if p.valid():
            return ("abort", None)
        if value > 8:
            return ("abort", E_MAPN)
        total = sum((p.ent[i] & 0xFF) // 8 for i in range(value))
        if total > 8:
            return ("abort", E_MAPN)
        if any(p.ent[i] == 0 for i in range(value)):
            return ("open",)
        return ("ok",)
    raise ValueError(kind)


def store(p, sub, value, kind):
    if kind == "cob":
        p.cob = value
    elif kind == "type":
        p.typ = value
    elif kind == "inhibit":
        p.inhibit = value
    elif kind == "event":
        p.event = value
    elif kind == "entry":
        p.ent[sub - 1] = value
    else:
        p.count = value


def stored(p, sub, kind):
    return {"cob": p.cob, "type": p.typ, "inhibit": p.inhibit, "event": p.event}.get(kind, p.ent[sub - 1] if kind == "entry" else p.count)


def model_apply(w, p, data):
    pos = 0
    for i in range(p.count):
        e = p.ent[i]
        n = (e & 0xFF) // 8
        w.objs[(e >> 16, (e >> 8) & 0xFF)][2] = int.from_bytes(data[pos:pos + n], "little")
        pos += n


def sync(w, sim):
    """A received SYNC: every active synchronous RPDO holding a frame applies it (exactly once)."""
    evs = sim.rx(0x80, b"")
    if w.mode == OP:
        for q in w.pdos:
            if not q.tx and q.num in w.pending and q.valid() and q.typ <= 240 and not q.degenerate():
                model_apply(w, q, w.pending.pop(q.num))
    return evs


def objects_equal(w, sim, fail, key, what):
    for k, ob in w.objs.items():
        r2 = sim.ret("rd %x %x %d" % (k[0], k[1], ob[0]))
        if int(r2[1], 16) != ob[2]:
            return fail(key, "%s: object %04x:%d = %s, reference %x" % (what, k[0], k[1], r2[1], ob[2]))
    return True


def check_activation(w, sim, p, fail):
    """The live table must reflect the stored configuration; then probe behaviour."""
    if p.degenerate():
        # the stored count covers an entry that names no object: such a configuration cannot be activated - the node must not map
        # "nothing" or leftovers of an earlier configuration instead: a TPDO stays silent, an RPDO changes no object
        cid = p.cob & 0x7FF
        if p.tx:
            evs = sim.cmd("trigpdo %d" % p.num) + sim.cmd("tick 130")
            for k in range(3):
                evs = evs + sync(w, sim)
            got = [(c, d) for (t, c, dlc, d, f) in S.txs(evs) if c == cid]
            if got:
                return fail("activation/incomplete-mapping/tpdo", "TPDO%d (count %d covers an empty entry, COB-ID %x, mode %d) transmitted %r" % (
                    p.num, p.count, p.cob, w.mode, [("%x" % c, d.hex()) for c, d in got[:3]]))
        else:
            sim.rx(cid, gen.rand_bytes(w.rng, 8))
            sync(w, sim)
            for k, ob in w.objs.items():
                r2 = sim.ret("rd %x %x %d" % (k[0], k[1], ob[0]))
                if int(r2[1], 16) != ob[2]:
                    return fail("activation/incomplete-mapping/rpdo", "frame for RPDO%d whose count covers an empty entry changed object %04x:%d" % (p.num, k[0], k[1]))
        return True
    r = sim.ret(("tpdo %d" if p.tx else "rpdo %d") % p.num)
    ident = int(r[0], 16)
    objnum = int(r[1])
    slots = r[-8:]
    active = w.mode == OP and p.valid()
    nid = w.nid
    if active:
        if ident != (p.cob & 0x1FFFFFFF):
            return fail("activation/identifier", "%s%d active with identifier %x, stored COB-ID %x" % ("TPDO" if p.tx else "RPDO", p.num, ident, p.cob))
        if objnum != p.count:
            return fail("activation/count", "%s%d active with %d mapped objects, stored count %d" % ("TPDO" if p.tx else "RPDO", p.num, objnum, p.count))
        total = 0
        for i in range(objnum):
            o, sz = slots[i].split(":")
            total += int(sz)
            if int(o) < 0:
                return fail("activation/missing-object", "mapping slot %d of an active PDO has no object" % i)
            if int(sz) != (p.ent[i] & 0xFF) // 8:
                return fail("activation/size", "mapping slot %d has size %s, stored entry %x" % (i, sz, p.ent[i]))
        if total > 8:
            return fail("activation/too-long", "active PDO maps %d bytes" % total)
    # behavioural probe
    if p.tx and p.typ <= 240:
        # a synchronous TPDO is driven by SYNC only: nothing in 120 ticks without SYNC, exactly one frame on the n-th SYNC
        if not (1 <= p.typ <= 3):
            return True
        cid = p.cob & 0x7FF
        sim.cmd("tick 12")            # let a transmission deferred by the inhibit time (SYNC of an earlier probe) go out first
        evs = sim.cmd("tick 120")
        got = [(c, d) for (t, c, dlc, d, f) in S.txs(evs) if c == cid]
        if got:
            return fail("behaviour/sync-tpdo-without-sync", "TPDO%d (type %d, %s) sent %d frame(s) within 120 ticks although no SYNC was received" % (
                p.num, p.typ, "active" if active else "inactive", len(got)))
        def current():
            data = b""
            for i in range(p.count):
                e = p.ent[i]
                ob = w.objs[(e >> 16, (e >> 8) & 0xFF)]
                data += (ob[2] & ((1 << (e & 0xFF)) - 1)).to_bytes((e & 0xFF) // 8, "little")
            return data
        seen = []
        data = current()
        for k in range(p.typ):
            before = current()       # a SYNC samples the TPDOs before it applies the frames waiting in synchronous RPDOs
            evs = sync(w, sim)
            seen.append([(c, d) for (t, c, dlc, d, f) in S.txs(evs) if c == cid])
            if seen[-1]:
                data = before
        evs = sim.cmd("tick 12")      # a transmission deferred by a running inhibit time
        seen.append([(c, d) for (t, c, dlc, d, f) in S.txs(evs) if c == cid])
        if seen[-1]:
            data = current()
        want = [[] for _ in range(p.typ - 1)] + [[(cid, data)] if active else []]
        # the SYNC counter of this TPDO starts at its activation; other PDOs' probes may have consumed SYNCs: accept any rotation with one frame
        flat = [x for sl in seen for x in sl]
        if flat != ([(cid, data)] if active else []):
            return fail("behaviour/sync-tpdo", "TPDO%d type %d (%s): %d SYNCs produced %r, reference exactly %r" % (
                p.num, p.typ, "active" if active else "inactive", p.typ, [("%x" % c, d.hex()) for c, d in flat], [("%x" % cid, data.hex())] if active else []))
        return True
    if p.tx:
        sim.cmd("tick 12")            # inhibit time started by an event-timer transmission during an earlier probe
        if p.typ >= 254:
            # an event-driven TPDO is not driven by SYNC, whatever its type was earlier
            got = []
            for k in range(3):
                evs = sync(w, sim)
                got += [(c, d) for (t, c, dlc, d, f) in S.txs(evs) if c == (p.cob & 0x7FF)]
            if got:
                return fail("behaviour/event-tpdo-on-sync", "TPDO%d (stored type %d, %s) sent %d frame(s) on 3 received SYNCs" % (
                    p.num, p.typ, "active" if active else "inactive", len(got)))
        evs = sim.cmd("trigpdo %d" % p.num)
        got = [(cid, d) for (t, cid, dlc, d, f) in S.txs(evs) if cid == (p.cob & 0x7FF)]
        if not got and p.inhibit > 0:
            evs = sim.cmd("tick 12")  # deferred to the end of the inhibit time
            got = [(cid, d) for (t, cid, dlc, d, f) in S.txs(evs) if cid == (p.cob & 0x7FF)][:1]
        want = []
        if active:
            data = b""
            for i in range(p.count):
                e = p.ent[i]
                ob = w.objs[(e >> 16, (e >> 8) & 0xFF)]
                data += (ob[2] & ((1 << (e & 0xFF)) - 1)).to_bytes((e & 0xFF) // 8, "little")
            want = [(p.cob & 0x7FF, data)]
        if got != want:
            return fail("behaviour/tpdo", "trigger of TPDO%d (%s): transmitted %r, reference %r" % (
                p.num, "active" if active else "inactive", [("%x" % c, d.hex()) for c, d in got], [("%x" % c, d.hex()) for c, d in want]))
    else:
        if p.typ <= 240:
            # a SYNC that follows no reception (since this activation) changes nothing - whatever the RPDO had received under its earlier settings
            sync(w, sim)
            if objects_equal(w, sim, fail, "behaviour/rpdo-sync-without-reception", "SYNC without a reception for RPDO%d (%s)" % (
                    p.num, "active" if active else "inactive")) is not True:
                return False
        data = gen.rand_bytes(w.rng, 8)
        evs = sim.rx(p.cob & 0x7FF, data)
        if active:
            if p.typ <= 240:
                w.pending[p.num] = data
            else:
                model_apply(w, p, data)
        if p.typ <= 240:
            sync(w, sim)               # synchronous RPDO: takes effect with the next SYNC
        if objects_equal(w, sim, fail, "behaviour/rpdo", "frame for RPDO%d (%s)" % (p.num, "active" if active else "inactive")) is not True:
            return False
    return True


def run_sequence(res, exe, rng, first, npdo, forced=None, nr=None, nt=None):
    w = World(rng, npdo, nr, nt)
    sim = S.Sim(exe, w.cfg)
    nid = w.nid
    script = []
    nref = nacc = 0
    ok = [True]

    def fail(key, msg, exp=None, obs=None):
        if ok[0]:
            res.violation("c14/" + key, msg + " | script: " + "; ".join(script[-7:]), sim=sim, expected=exp, observed=obs)
        ok[0] = False
        return False

    try:
        n = rng.choice([15, 30, 60])
        for i in range(n):
            if rng.random() < 0.15:
                cs = 1 if w.mode == PREOP else 128
                script.append("nmt %d" % cs)
                sim.rx(0, bytes([cs, nid]))
                w.pending.clear()
                w.mode = OP if cs == 1 else PREOP
                if w.mode == OP:
                    for p in w.pdos:
                        if not check_activation(w, sim, p, fail):
                            return
                continue
            p = rng.choice(w.pdos)
            burst = []
            x = rng.random()
            if x < 0.04:
                # all eight slots with 32-bit entries, then count 8 (256 bits) / 5 / 2
                sub32 = [ss for ss in (2, 5) if w.entry_verdict(p, gen.maplink(0x2300, ss, 32)) is None]
                if sub32:
                    burst = [(p.comm(), 1, 4, p.cob | 0x80000000, "cob"), (p.mapi(), 0, 1, 0, "count")]
                    burst += [(p.mapi(), k, 4, gen.maplink(0x2300, rng.choice(sub32), 32), "entry") for k in range(1, 9)]
                    burst += [(p.mapi(), 0, 1, rng.choice([8, 8, 5, 3]), "count"), (p.mapi(), 0, 1, 2, "count")]
            elif x < 0.06:
                # short fields of wider objects (8 or 16 bits of a 32-bit object, 8 bits of a 16-bit object) in every slot
                subs = [ss for ss in (1, 2, 4, 5, 7, 8) if w.entry_verdict(p, gen.maplink(0x2300, ss, 8)) is None]
                if subs:
                    k = rng.choice([2, 4, 8])
                    burst = [(p.comm(), 1, 4, p.cob | 0x80000000, "cob"), (p.mapi(), 0, 1, 0, "count")]
                    for j in range(1, k + 1):
                        ss = rng.choice(subs)
                        burst.append((p.mapi(), j, 4, gen.maplink(0x2300, ss, 8 if (w.objs[(0x2300, ss)][0] == 2 or k == 8) else rng.choice([8, 16])), "entry"))
                    burst += [(p.mapi(), 0, 1, k, "count"), (p.comm(), 1, 4, p.cob & ~0x80000000, "cob")]
                    if w.mode != OP:
                        burst.append(("nmt", 1))
            elif x < 0.08 and p.tx:
                # an event-driven TPDO with a running event time is switched to a synchronous type and re-validated
                good = gen.maplink(0x2300, 3, 8)
                burst = [(p.comm(), 1, 4, p.cob | 0x80000000, "cob"), (p.comm(), 2, 1, 254, "type"), (p.mapi(), 0, 1, 0, "count"), (p.mapi(), 1, 4, good, "entry"),
                         (p.mapi(), 0, 1, 1, "count"), (p.comm(), 5, 2, 5, "event"), (p.comm(), 1, 4, p.cob & ~0x80000000, "cob"), ("tick", 12),
                         (p.comm(), 1, 4, p.cob | 0x80000000, "cob"), (p.comm(), 2, 1, rng.choice([1, 2]), "type"), (p.comm(), 1, 4, p.cob & ~0x80000000, "cob")]
            elif x < 0.12 and p.tx:
                # a TPDO that was synchronous during one OPERATIONAL phase is re-typed to event-driven outside OPERATIONAL (or the other way round)
                good = gen.maplink(0x2300, 3, 8)
                t1, t2 = rng.choice([(1, 255), (2, 254), (255, 1), (240, 255)])
                burst = [("nmt", 128), (p.comm(), 1, 4, p.cob | 0x80000000, "cob"), (p.comm(), 2, 1, t1, "type"), (p.mapi(), 0, 1, 0, "count"), (p.mapi(), 1, 4, good, "entry"),
                         (p.mapi(), 0, 1, 1, "count"), (p.comm(), 1, 4, p.cob & ~0x80000000, "cob"), ("nmt", 1), ("nmt", rng.choice([128, 128, 2])),
                         ("nmt", 128), (p.comm(), 1, 4, p.cob | 0x80000000, "cob"), (p.comm(), 2, 1, t2, "type")]
                burst += [(p.comm(), 1, 4, p.cob & ~0x80000000, "cob"), ("nmt", 1)] if rng.random() < 0.5 else [("nmt", 1), (p.comm(), 1, 4, p.cob & ~0x80000000, "cob")]
            elif x < 0.17 and not p.tx:
                # a synchronous RPDO holds a received frame (no SYNC yet) while it is invalidated / re-mapped / re-validated or the node leaves
                # and re-enters OPERATIONAL: the configuration that is activated then starts without that frame
                good = [v_ for v_ in (gen.maplink(0x2300, ss, 8 * w.objs[(0x2300, ss)][0]) for ss in (0, 1, 2, 3, 4, 5, 8)) if w.entry_verdict(p, v_) is None]
                if len(good) >= 2:
                    g1, g2 = rng.sample(good, 2)
                    off, on = (p.comm(), 1, 4, p.cob | 0x80000000, "cob"), (p.comm(), 1, 4, p.cob & ~0x80000000, "cob")
                    burst = [off, (p.comm(), 2, 1, rng.choice([0, 1, 240]), "type"), (p.mapi(), 0, 1, 0, "count"), (p.mapi(), 1, 4, g1, "entry"), (p.mapi(), 0, 1, 1, "count"), on]
                    if w.mode != OP:
                        burst.append(("nmt", 1))
                    burst.append(("frame", p.num))
                    burst += rng.choice([[off, (p.mapi(), 0, 1, 0, "count"), (p.mapi(), 1, 4, g2, "entry"), (p.mapi(), 0, 1, 1, "count"), on],
                                         [("nmt", 128), ("nmt", 1)], [off, on],
                                         [("nmt", 128), off, (p.mapi(), 0, 1, 0, "count"), (p.mapi(), 1, 4, g2, "entry"), (p.mapi(), 0, 1, 1, "count"), on, ("nmt", 1)]])
            if not burst and rng.random() < 0.1 and w.mode == OP:
                burst = [("frame", q_.num) for q_ in w.pdos if not q_.tx][:1 + rng.randrange(2)]
            if not burst:
                burst = [gen_write(rng, w, p)]
            for (idx, sub, width, value, kind) in [b if len(b) == 5 else (b[0], b[1], 0, 0, b[0]) for b in burst]:
              if kind == "tick":
                sim.cmd("tick %d" % sub)
                continue
              if kind == "frame":
                q = [q_ for q_ in w.pdos if not q_.tx and q_.num == sub][0]
                data = gen.rand_bytes(rng, 8)
                script.append("rx RPDO%d %s" % (q.num, data.hex()))
                sim.rx(q.cob & 0x7FF, data)
                if w.mode == OP and q.valid() and not q.degenerate():
                    if q.typ <= 240:
                        w.pending[q.num] = data
                        res.counters["frames_waiting"] += 1
                    else:
                        model_apply(w, q, data)
                        if objects_equal(w, sim, fail, "behaviour/rpdo", "frame for the active asynchronous RPDO%d" % q.num) is not True:
                            return
                continue
              if kind == "nmt":
                w.pending.clear()
                script.append("nmt %d" % sub)
                sim.rx(0, bytes([sub, nid]))
                was = w.mode
                w.mode = OP if sub == 1 else PREOP
                if sub == 2:
                    sim.rx(0, bytes([128, nid]))        # STOPPED, then back to PRE-OPERATIONAL (SDO needs it)
                if w.mode == OP and was != OP:
                    for q in w.pdos:
                        if not check_activation(w, sim, q, fail):
                            return
                continue
              if True:
                exp = expect(w, p, idx, sub, value, kind)
                state = ("valid" if p.valid() else "invalid", "count0" if p.count == 0 else "countN", "op" if w.mode == OP else "preop", "tx" if p.tx else "rx")
                script.append("write %04x:%d = %x (%s, PDO %s)" % (idx, sub, value, kind, "/".join(state)))
                old = stored(p, sub, kind)
                code, evs = S.sdo_write(sim, nid, idx, sub, value, width)
                for iv in S.invs(evs):
                    fail("inv", "invariant " + iv); return
                res.states.add((kind,) + state + (exp[0],))
                if exp[0] == "ok":
                    if code is not None:
                        fail("verdict/refused/%s" % kind, "valid write refused with %r" % (("%08x" % code) if isinstance(code, int) else code)); return
                elif exp[0] == "abort":
                    if code is None:
                        fail("verdict/accepted/%s/%s" % (kind, state[0]), "write violating the preconditions was accepted"); return
                    if exp[1] is not None and code != exp[1]:
                        fail("verdict/code/%s" % kind, "abort code %s, reference %08x" % (("%08x" % code) if isinstance(code, int) else code, exp[1])); return
                if code is None:
                    store(p, sub, value, kind)
                    nacc += 1
                    if kind == "cob" and not p.tx:
                        if p.num in w.pending:
                            res.counters["reactivated_holding_frame"] += 1
                        w.pending.pop(p.num, None)
                else:
                    nref += 1
                # read back
                v2, _ = S.sdo_read(sim, nid, idx, sub)
                if v2 != stored(p, sub, kind):
                    fail("readback/%s" % ("refused-changed" if code is not None else "accepted-not-stored"),
                         "%04x:%d reads %r after the write, reference %x (before: %x)" % (idx, sub, v2, stored(p, sub, kind), old)); return
                if code is None and kind == "cob" and w.mode == OP:
                    if not check_activation(w, sim, p, fail):
                        return
        res.evals += 1
        res.counters["accepted"] += nacc
        res.counters["refused"] += nref
        if nacc and nref:
            res.nt(tuple(script))
        if first:
            res.sample({"script_head": script[:12]})
    except S.SimDied as e:
        res.violation("c14/crash/" + e.signature, "executor died: " + e.signature, sim=sim, detail=e.detail[-2000:])
    finally:
        sim.close()


def plan(tier, seed):
    q = tier == "quick"
    items = [("one", i, 60 if q else 600) for i in range(32 if q else 200)]
    items += [("four", i, 30 if q else 300) for i in range(16 if q else 100)]
    # builds whose channel counts differ from each other: CO_RPDO_N=2 / CO_TPDO_N=6 and CO_RPDO_N=5 / CO_TPDO_N=3
    items += [("r2t6", i, 20 if q else 200) for i in range(8 if q else 50)]
    items += [("r5t3", i, 20 if q else 200) for i in range(8 if q else 50)]
    return items


def work(item, ctx):
    res = F.Res()
    for h in range(item[2]):
        rng = random.Random(F.seed_for(ctx["seed"], "C14", item[0], item[1], h))
        if item[0] in ("r2t6", "r5t3"):
            nr, nt = (2, 6) if item[0] == "r2t6" else (5, 3)
            run_sequence(res, ctx["exes"]["asanp" if item[0] == "r2t6" else "asanq"], rng, False, max(nr, nt), nr=nr, nt=nt)
            res.counters["sequences_on_unequal_channel_counts"] += 1
        else:
            run_sequence(res, ctx["exes"]["asan"], rng, item[1] == 0 and h == 0, 1 if item[0] == "one" else 4)
    return res


def selftest(ctx):
    w = World(random.Random(1), 1)
    p = w.pdos[1]
    p.cob = 0x40000181
    assert expect(w, p, 0x1800, 2, 1, "type") == ("abort", None)
    p.cob |= 0x80000000
    p.count = 0
    assert expect(w, p, 0x1A00, 1, gen.maplink(0x2300, 6, 32), "entry") == ("abort", E_MAP)
    assert expect(w, p, 0x1A00, 0, 9, "count") == ("abort", E_MAPN)


def finish(total, tier):
    p = []
    if len(total.states) < 80:
        p.append("write-kind x PDO-state matrix: only %d cells" % len(total.states))
    if total.counters["reactivated_holding_frame"] < 200:
        p.append("only %d re-activations of a synchronous RPDO that held a received frame" % total.counters["reactivated_holding_frame"])
    return p


def replay(case, ctx):
    return F.replay_log(case, ctx)
