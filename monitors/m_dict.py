"""C06 - dictionary lookup and typed / buffer access (engine: harness/dictcheck.c)."""
import os, subprocess
import framework as F
import sim as S

PROP = "C06"
LEVEL = "exploration"
RULE = ("(a) exhaustive small scope: all 256 subsets of an 8-key universe as dictionaries (array of exactly n+1 entries, so touching "
        "anything behind the end marker is an ASan report) x 21 probe keys x 4 flag bytes against a linear scan; (b) random dictionaries "
        "up to 3000 entries with hit / neighbour / random lookups; (c) a counting type on every entry of dictionaries of 0..40 entries, "
        "through CODictObjInit and through CONodeInit; (c3) 24 system dictionaries (1003h of every depth, 1005h/1006h, 1008h, 1014h, 1016h with 0..3 entries, 1017h, 1200h, PDO records, domain): the Init function of every system type - found through the public type structure and counted by the compiler's function-entry hook (-finstrument-functions, stack sources unchanged) - has to run once per entry of that type during CONodeInit; (d) typed access: width x direct/referenced x plain/node-id-relative x node id "
        "{1,64,127} x all 8/16-bit values, boundary + random 32-bit values, wrong-width accessors; (e) buffer access with every length "
        "0..4000 on domains/strings of 8 sizes in exact-size user buffers; (f) continued access (COObjRd/WrBufStart + ...Cont) in random chunks that run up to and beyond the end of exact-size domains/strings; distinct non-trivial = lookups with a hit + typed + buffer cases")
ASSUMPTIONS = ["dictionaries are sorted, unique and end-marked (precondition in the statement)",
               "buffer API: content and length checked on domains and strings; on the CiA 301 system entries only that no more than the requested length is moved (exact-size heap blocks under ASan)"]
VARIANTS = [("asan", ("dictcheck.c",), "dictcheck", {"extra_flags": "-finstrument-functions -O0"})]


def plan(tier, seed):
    q = tier == "quick"
    items = [("det", 1, 1), ("det", 4, 4), ("det", 16, 16)] + [("chunk", i, 32) for i in range(4)]
    items += [("typed", i, 8) for i in range(4 if q else 16)]
    items += [("stream", 0, 64)]
    items += [("rand", i, 2) for i in range(8 if q else 256)]
    return items


def work(item, ctx):
    res = F.Res()
    kind, idx, parts = item
    exe = ctx["exes"]["asan:dictcheck"]
    q = ctx["tier"] == "quick"
    seed = F.seed_for(ctx["seed"], "C06", kind, idx) & 0xFFFFFFFF
    args = [exe, str(seed), str(60 if q else 400), str(1500 if q else 20000), "0" if q else "1", str(parts)]
    e = dict(os.environ); e.update(S.ASAN_ENV)
    p = subprocess.run(args, stdout=subprocess.PIPE, stderr=subprocess.PIPE, text=True, env=e, timeout=3000)
    done = False
    for l in p.stdout.splitlines():
        t = l.split(None, 2)
        if not t:
            continue
        if t[0] == "viol":
            res.violation("c06/" + t[1], t[2] if len(t) > 2 else "", log=[" ".join(args)])
        elif t[0] == "stat":
            res.counters[t[1]] += int(t[2])
        elif t[0] == "sample" and idx in (1,) :
            res.sample(l[7:])
        elif t[0] == "done":
            done = True
    if p.returncode != 0 or not done:
        sig = S.parse_crash(p.stderr, p.returncode)
        res.violation("c06/crash/" + sig, "engine died: " + sig, log=[" ".join(args)], detail=p.stderr[-2500:])
    c = res.counters
    res.evals = c["lookups"] + c["typed_cases"] + c["buffer_cases"] + c["init_dictionaries"] + c["chunked_cases"] + c["system_buffer_cases"]
    # distinct by construction: the enumerated parts (small scope, init, 8/16-bit typed values, buffer lengths) never repeat a case;
    # random lookups / random 32-bit values are not counted as distinct
    if kind == "det":
        res.nt_count = c["small_scope_lookups"] + c["init_dictionaries"] + c["buffer_cases"]
    elif kind == "typed" and idx == 0:
        res.nt_count = 12 * (256 + 65536 // 7)
    if kind == "det" and parts == 1:
        res.sample({"part": "small-scope exhaustive", "dictionaries": c["small_scope_dictionaries"], "lookups": c["small_scope_lookups"]})
        res.extra["exhaustive_small_scope"] = True
    return res


def selftest(ctx):
    assert S.parse_crash("==1==ERROR: AddressSanitizer: heap-buffer-overflow on address\nREAD of size 4\n    #0 0x1 in CODictFind /repo/src/core/co_dict.c:50\n", 98).endswith("CODictFind")


def finish(total, tier):
    c = total.counters
    p = []
    if c["small_scope_dictionaries"] != 512:
        p.append("small-scope enumeration incomplete (%d of 512 dictionaries)" % c["small_scope_dictionaries"])
    if c["init_hook_silent"] or c["init_system_dictionaries"] < 24 or c["init_hook_calls"] < 1000:
        p.append("function-entry hook of the init-once check did not observe the initialisation (%d dictionaries, %d calls seen)" % (c["init_system_dictionaries"], c["init_hook_calls"]))
    if c["system_buffer_cases"] < 1000:
        p.append("buffer access to system entries: only %d cases" % c["system_buffer_cases"])
    if c["typed_cases"] < 100000:
        p.append("typed-access cases: %d" % c["typed_cases"])
    return p


def replay(case, ctx):
    print("re-run:", case["log"])
    print("VIOLATION property=C06 replay=(this file)")
    return 1
