"""Process driver for the cosim executor: configuration objects, pipes,
crash/sanitizer report parsing."""
import os, re, subprocess, tempfile, signal

W, R, P, A, N, D = 0x01, 0x02, 0x04, 0x08, 0x40, 0x80
RW = R | W

ASAN_ENV = {
    "ASAN_OPTIONS": "abort_on_error=0:detect_leaks=0:allocator_may_return_null=1:exitcode=98:symbolize=1:detect_stack_use_after_return=0",
    "UBSAN_OPTIONS": "print_stacktrace=1:halt_on_error=1:exitcode=99",
    "MSAN_OPTIONS": "exitcode=95:symbolize=1:halt_on_error=1",
    "MSAN_SYMBOLIZER_PATH": "/usr/bin/llvm-symbolizer-14",
}

# CO_ERR values (CO_ERR_BASE = 0x100)
ERR = {}
_names = """BAD_ARG OBJ_NOT_FOUND OBJ_READ OBJ_WRITE OBJ_SIZE OBJ_INIT OBJ_MAP_LEN OBJ_MAP_TYPE OBJ_ACC OBJ_RANGE
OBJ_INCOMPATIBLE DICT_INIT PARA_IDX PARA_STORE PARA_RESTORE PARA_LOAD LSS_STORE LSS_LOAD CFG_1001_0 CFG_1003_0
CFG_1003_1 CFG_1005_0 CFG_1006_0 CFG_1010_0 CFG_1011_0 CFG_1014_0 CFG_1017_0 CFG_1016 CFG_1018 TMR_NO_ACT
TMR_INSERT TMR_CREATE TMR_DELETE NMT_INIT NMT_APP_RESET NMT_COM_RESET NMT_MODE EMCY_BAD_ROOT TPDO_COM_OBJ
TPDO_MAP_OBJ TPDO_OBJ_TRIGGER TPDO_NUM_TRIGGER TPDO_INHIBIT TPDO_EVENT RPDO_COM_OBJ RPDO_MAP_OBJ SDO_SILENT
SDO_OFF SDO_BUSY SDO_ABORT SDO_READ SDO_WRITE SYNC_MSG SYNC_RES IF_CAN_INIT IF_CAN_ENABLE IF_CAN_FLUSH_RX
IF_CAN_FLUSH_TX IF_CAN_RESET IF_CAN_CLOSE IF_CAN_READ IF_CAN_SEND IF_TIMER_INIT IF_TIMER_UPDATE IF_TIMER_RELOAD
IF_TIMER_DELAY IF_TIMER_STOP IF_TIMER_START IF_NVM_INIT IF_NVM_READ IF_NVM_WRITE SIG_INIT SIG_CREATE MSG_INIT
MSG_CREATE MSG_READ TYPE_INIT TYPE_RD TYPE_WR TYPE_RESET""".split()
for _i, _n in enumerate(_names):
    ERR[_n] = 0x100 + _i
ERR["NONE"] = 0

MODE_INVALID, MODE_INIT, MODE_PREOP, MODE_OP, MODE_STOP = 0, 1, 2, 3, 4


class Obj:
    __slots__ = ("idx", "sub", "flags", "type", "kind", "args")

    def __init__(self, idx, sub, flags, type_, kind, *args):
        self.idx, self.sub, self.flags, self.type, self.kind, self.args = idx, sub, flags, type_, kind, list(args)

    @property
    def key(self):
        return (self.idx << 16) | (self.sub << 8)

    def line(self):
        return "obj %x %x %x %s %s %s" % (self.idx, self.sub, self.flags, self.type, self.kind,
                                          " ".join(str(a) for a in self.args))


def var(idx, sub, flags, width, init=0, type_=None):
    t = type_ or {1: "u8", 2: "u16", 4: "u32"}[width]
    if flags & D:
        return Obj(idx, sub, flags, t, "D", init)
    return Obj(idx, sub, flags, t, "V", width, init)


def string(idx, sub, data, flags=R):
    return Obj(idx, sub, flags, "str", "S", data.hex() if data else "-")


def domain(idx, sub, size, init=b"", flags=RW):
    return Obj(idx, sub, flags, "dom", "M", size, init.hex() if init else "-")


class Config:
    def __init__(self, nodeid=1, baud=250000, freq=1000, tmrnum=16, fill=0, dictmax=-1, emcynull=0):
        self.nodeid, self.baud, self.freq, self.tmrnum = nodeid, baud, freq, tmrnum
        self.fill, self.dictmax, self.emcynull = fill, dictmax, emcynull
        self.objs = []
        self.emcy = []      # (reg, code)
        self.paras = []     # (gid, offset, size, type, value, hasdef, raminit bytes, def bytes)
        self.nvm = None     # (size, bytes or None)
        self.lss = None     # (baud, node)

    def add(self, *objs):
        for o in objs:
            self.objs.append(o)
        return self

    def finalize(self):
        self.objs.sort(key=lambda o: o.key)
        keys = [o.key for o in self.objs]
        assert len(set(keys)) == len(keys), "duplicate keys"
        self._index = {(o.idx, o.sub): i for i, o in enumerate(self.objs)}
        return self

    def _ix(self):
        if getattr(self, "_index", None) is None or len(self._index) != len(self.objs):
            self.finalize()
        return self._index

    def index(self, idx, sub):
        return self._ix()[(idx, sub)]

    def has(self, idx, sub):
        return (idx, sub) in self._ix()

    def get(self, idx, sub):
        return self.objs[self._ix()[(idx, sub)]]

    def lines(self):
        self.finalize()
        out = ["cfg %d %d %d %d %d %d %d" % (self.nodeid, self.baud, self.freq, self.tmrnum, self.fill, self.dictmax, self.emcynull)]
        for g in self.paras:
            gid, off, size, typ, val, hasdef, ram, dfl = g
            out.append("para %d %d %d %d %d %d %s %s" % (gid, off, size, typ, val, 1 if hasdef else 0,
                                                          ram.hex() if ram else "-", dfl.hex() if dfl else "-"))
        for o in self.objs:
            out.append(o.line())
        for reg, code in self.emcy:
            out.append("emcy %d %x" % (reg, code))
        out.append("emcydone")
        if self.nvm is not None:
            out.append("nvm %d %s" % (self.nvm[0], self.nvm[1].hex() if self.nvm[1] else ""))
        else:
            out.append("nvm 64")
        if self.lss is not None:
            out.append("lsspreset %d %d" % self.lss)
        return out


class SimDied(Exception):
    def __init__(self, signature, detail, returncode):
        Exception.__init__(self, signature)
        self.signature, self.detail, self.returncode = signature, detail, returncode


_repo_fn = re.compile(r"\bin (CO[A-Za-z0-9_]+|COT[A-Za-z0-9_]+)\b")


def parse_crash(text, rc):
    """Reduce sanitizer / watchdog output to a short signature."""
    m = re.search(r"ERROR: AddressSanitizer: (\S+)", text)
    if m:
        kind = m.group(1)
        rw = re.search(r"\b(READ|WRITE) of size", text)
        fn = re.search(r"#\d+ 0x[0-9a-f]+ in (\w+) (\S+)", text)
        fns = re.findall(r"#\d+ 0x[0-9a-f]+ in (\w+) \S*/src/", text)
        return "asan:%s:%s:%s" % (kind, rw.group(1) if rw else "-", fns[0] if fns else (fn.group(1) if fn else "?"))
    m = re.search(r"WARNING: MemorySanitizer: (\S+)", text)
    if m:
        fns = re.findall(r"#\d+ 0x[0-9a-f]+ in (\w+) \S*/src/", text)
        fn = re.search(r"#\d+ 0x[0-9a-f]+ in (\w+)", text)
        return "msan:%s:%s" % (m.group(1), fns[0] if fns else (fn.group(1) if fn else "?"))
    m = re.search(r"([\w./-]+):(\d+):(\d+): runtime error: (.*)", text)
    if m:
        msg = re.sub(r"0x[0-9a-f]+", "ADDR", m.group(4))
        msg = re.sub(r"\d+", "#", msg)
        fns = re.findall(r"#\d+ 0x[0-9a-f]+ in (\w+) \S*/src/", text)
        return "ubsan:%s:%s:%s" % (os.path.basename(m.group(1)), fns[0] if fns else "?", msg[:60])
    if "WATCHDOG" in text:
        fns = re.findall(r"\((CO\w+)\+0x", text)
        return "hang:%s" % (fns[0] if fns else "?")
    if "harness-error" in text:
        return "harness:" + text.strip()[:80]
    if rc is not None and rc < 0:
        return "signal:%s" % signal.Signals(-rc).name
    return "exit:%s" % rc


class Sim:
    """One executor process.  cmd() returns the events of one step as a list of token lists."""

    def __init__(self, exe, cfg, init=True, start=True, env=None, valgrind=False):
        self.exe = exe
        self.cfg = cfg
        self.errf = tempfile.TemporaryFile(mode="w+")
        e = dict(os.environ)
        e.update(ASAN_ENV)
        if env:
            e.update(env)
        argv = [exe]
        if valgrind:
            argv = ["valgrind", "-q", "--error-exitcode=96", "--undef-value-errors=no", exe]
        self.p = subprocess.Popen(argv, stdin=subprocess.PIPE, stdout=subprocess.PIPE, stderr=self.errf,
                                  text=True, bufsize=1 << 16, env=e)
        self.log = []          # command log for replay
        self.nsteps = 0
        self.tick = 0
        for l in cfg.lines():
            self._send(l)
        self.init_events = None
        self.start_events = None
        if init:
            self.init_events = self.cmd("init")
            if start:
                self.start_events = self.cmd("start")

    def _send(self, l):
        self.log.append(l)
        try:
            self.p.stdin.write(l + "\n")
        except BrokenPipeError:
            self._dead()

    def _dead(self):
        try:
            self.p.stdin.close()
        except Exception:
            pass
        try:
            rc = self.p.wait(timeout=20)
        except Exception:
            self.p.kill()
            rc = self.p.wait()
        self.errf.seek(0)
        text = self.errf.read()
        try:
            rest = self.p.stdout.read()
        except Exception:
            rest = ""
        if "harness-error" in (rest or ""):
            text += rest
        raise SimDied(parse_crash(text, rc), text[-6000:], rc)

    def _read_step(self):
        evs = []
        while True:
            l = self.p.stdout.readline()
            if not l:
                self._dead()
            if l[0] == "." and l[1] == " ":
                self.tick = int(l[2:])
                self.nsteps += 1
                return evs
            evs.append(l.split())

    def cmd(self, line):
        self._send(line)
        try:
            self.p.stdin.flush()
        except BrokenPipeError:
            self._dead()
        return self._read_step()

    def batch(self, lines, chunk=128):
        out = []
        for i in range(0, len(lines), chunk):
            part = lines[i:i + chunk]
            for l in part:
                self._send(l)
            try:
                self.p.stdin.flush()
            except BrokenPipeError:
                self._dead()
            for _ in part:
                out.append(self._read_step())
        return out

    # convenience wrappers -------------------------------------------------
    def rx(self, cobid, data):
        return self.cmd("rx %x %d %s" % (cobid, len(data), data.hex() if data else "-"))

    def ret(self, line):
        for e in self.cmd(line):
            if e[0] == "ret":
                return e[1:]
        return None

    def ret_ev(self, line):
        evs = self.cmd(line)
        r = None
        for e in evs:
            if e[0] == "ret":
                r = e[1:]
        return r, evs

    def dump(self):
        for e in self.cmd("dump"):
            if e[0] == "dump":
                return e[1:]

    def state(self):
        for e in self.cmd("state"):
            if e[0] == "st":
                return dict(x.split("=", 1) for x in e[1:])

    def occ(self):
        for e in self.cmd("occ"):
            if e[0] == "occ":
                return {k: int(v) for k, v in (x.split("=") for x in e[1:])}

    def close(self):
        try:
            self.p.stdin.write("quit\n")
            self.p.stdin.close()
            self.p.wait(timeout=20)
        except Exception:
            try:
                self.p.kill()
                self.p.wait()
            except Exception:
                pass
        try:
            self.errf.close()
            self.p.stdout.close()
        except Exception:
            pass


def txs(evs):
    """CAN frames sent in a step: list of (tick, id, dlc, bytes, failed)."""
    out = []
    for e in evs:
        if e[0] == "tx":
            data = bytes.fromhex(e[4]) if e[4] != "-" else b""
            out.append((int(e[1]), int(e[2], 16), int(e[3]), data, len(e) > 5))
    return out


def invs(evs):
    return [" ".join(e[1:]) for e in evs if e[0] == "inv"]


def cbs(evs, name=None):
    return [e[1:] for e in evs if e[0] == "cb" and (name is None or e[1] == name)]


# ---------------------------------------------------------------- SDO helpers
def sdo_write(sim, nid, idx, sub, value, width, srv=0):
    """Expedited download through the real server; returns (abort code or None, events)."""
    cmd = 0x23 | ((4 - width) << 2)
    frame = bytes([cmd, idx & 0xFF, idx >> 8, sub]) + (value & 0xFFFFFFFF).to_bytes(4, "little")
    evs = sim.rx(0x600 + 0x10 * srv + nid, frame)
    for (t, cid, dlc, d, f) in txs(evs):
        if cid == 0x580 + 0x10 * srv + nid and len(d) == 8:
            if d[0] == 0x80:
                return int.from_bytes(d[4:8], "little"), evs
            if d[0] == 0x60:
                return None, evs
    return "noresponse", evs


def sdo_read(sim, nid, idx, sub, srv=0):
    """Expedited upload; returns (value or ('abort', code) or None, events)."""
    evs = sim.rx(0x600 + 0x10 * srv + nid, bytes([0x40, idx & 0xFF, idx >> 8, sub, 0, 0, 0, 0]))
    for (t, cid, dlc, d, f) in txs(evs):
        if cid == 0x580 + 0x10 * srv + nid and len(d) == 8:
            if d[0] == 0x80:
                return ("abort", int.from_bytes(d[4:8], "little")), evs
            if (d[0] & 0xE3) == 0x43:
                n = (d[0] >> 2) & 3
                return int.from_bytes(d[4:8 - n], "little"), evs
    return None, evs
