"""C09 - NMT state machine and per-state service gating.

Reference FSM (CiA 301 slave) + gating table; after every operation every
service is probed and the frames / callbacks / object effects are compared."""
import random, itertools
import framework as F
import sim as S
import gen
from sim import Config, var, W, R, P, A, N, D, RW

PROP = "C09"
LEVEL = "exploration"
RULE = ("operation sequences over {NMT command cs in {1,2,128,129,130,0,3,127,255} x target in {own, 0, other}, CONmtSetMode x4, CONmtReset x2, "
        "CONodeStart, CONodeStop}: complete enumeration to the depth bound plus random longer sequences; after EVERY operation the probes fire "
        "(three failing CAN reads with an NMT command / SDO request / foreign frame left in the buffer, SDO read, the eight frames of an SDO block download + block upload incl. the unanswered ones, RPDO, SYNC incl. a synchronous RPDO received before the operation, heartbeat of a monitored node, LSS inquiry, foreign identifier, EMCY set/clear, TPDO trigger, heartbeat "
        "producer ticks) and frames, callbacks, CONmtGetMode and object effects are compared with the reference FSM and gating table; "
        "non-trivial = sequence with >= 1 mode change; distinct by operation sequence")
ASSUMPTIONS = ["delivery of unclaimed frames in STOPPED and INITIALISING is not constrained (DESIGN.md A.3)",
               "intermediate mode notifications during a reset are not constrained; the last one must equal the final mode",
               "the scripted application reactions inside CONmtModeChange are armed for PRE-OPERATIONAL, OPERATIONAL and STOPPED, not for the notification of INITIALISING"]
VARIANTS = ["asan"]

INIT, PREOP, OP, STOP, DEAD = 1, 2, 3, 4, 0
CODE = {PREOP: 127, OP: 5, STOP: 4}
HB = 10          # producer period in ticks
CS = [1, 2, 128, 129, 130, 0, 3, 127, 255]


def make_cfg(nid):
    cfg = Config(nodeid=nid, freq=1000, tmrnum=16)
    gen.add_mandatory(cfg, hb=HB, sync_id=0x80, emcy_id=0x80, ssdo=1, ssdo_rw=False)
    gen.add_hbcons(cfg, [(9, 30000)])
    cfg.add(var(0x2000, 0, RW | P, 1, 0x11))
    cfg.add(var(0x2001, 0, RW | P, 1, 0x77))
    cfg.add(var(0x2002, 0, RW | P, 1, 0x22))
    cfg.add(S.domain(0x2020, 0, 14, bytes(range(0x31, 0x3F))))
    gen.add_rpdo(cfg, 0, 0x200, 254, [gen.maplink(0x2000, 0, 8)])
    gen.add_rpdo(cfg, 1, 0x300, 1, [gen.maplink(0x2002, 0, 8)])
    gen.add_tpdo(cfg, 0, 0x40000180, 254, 0, 0, [gen.maplink(0x2001, 0, 8)])
    gen.add_tpdo(cfg, 1, 0x40000280, 1, 0, 0, [gen.maplink(0x2001, 0, 8)])
    cfg.emcy = [(0, 0x1000)]
    gen.add_csdo(cfg, 0, server=2)
    cfg.finalize()
    return cfg


def alphabet(nid):
    ops = []
    other = 2 if nid != 2 else 3
    for cs in CS:
        for tgt in (nid, 0, other):
            ops.append(("nmt", cs, tgt))
    for m in (INIT, PREOP, OP, STOP):
        ops.append(("setmode", m))
    ops += [("reset", 1), ("reset", 2), ("start",), ("stop",)]
    return ops


def callback_ops():
    """Reactions of the application inside the mode change callback (API calls made from inside callbacks): a self-starting device
    (PRE-OPERATIONAL -> OPERATIONAL), a device refusing OPERATIONAL or STOPPED, a status PDO triggered on a mode change."""
    ops = [("cbset", a, b) for a in (PREOP, OP, STOP) for b in (PREOP, OP, STOP) if a != b]
    ops += [("cbtrig", a) for a in (PREOP, OP, STOP)]
    # ... and inside the reset request callback, which the application receives after a reset commanded through the network has been
    # carried out (the node is PRE-OPERATIONAL again and has sent its boot-up): what is requested there is not undone by the reset
    ops += [("rrset", a) for a in (PREOP, OP, STOP)] + [("cboff",)]
    return ops


class Model:
    def __init__(self, nid):
        self.nid = nid
        self.mode = INIT
        self.emcy = False
        self.hb_base = 0
        self.rpdo_val = 0x11
        self.srpdo_val = 0x22         # object of the synchronous RPDO
        self.srpdo_pending = None     # received in OPERATIONAL, waiting for the next SYNC
        self.hbc_state = None
        self.nprobe = 0
        self.rr = None                # mode the application requests inside CONmtResetRequest
        self.cb = None                # scripted reaction of the application inside CONmtModeChange: ("set", trigger, target) / ("trig", trigger)
        self.transit = False          # the last operation changed the mode at least once (even if it ended where it began)

    def reset(self, tick):
        self.emcy = False
        self.hb_base = tick
        self.hbc_state = None


class Check:
    """Compares one step's events with expectations."""

    def __init__(self, res, sim, what):
        self.res, self.sim, self.what = res, sim, what
        self.ok = True

    def fail(self, key, msg, expected=None, observed=None):
        if self.ok:
            self.res.violation("c09/" + key, self.what + ": " + msg, sim=self.sim, expected=expected, observed=observed)
        self.ok = False

    def step(self, evs, tx, canrx=(0, 0), cbs=None, label=""):
        got = [(cid, d.hex()) for (t, cid, dlc, d, f) in S.txs(evs)]
        want = [(cid, d.hex()) for (cid, d) in tx]
        if got != want:
            self.fail(label + "/frames", "transmitted %r, reference %r" % ([("%x" % c, d) for c, d in got][:6], [("%x" % c, d) for c, d in want][:6]),
                      expected=want, observed=got)
        n = len(S.cbs(evs, "canrx"))
        if not (canrx[0] <= n <= canrx[1]):
            self.fail(label + "/canrx", "COIfCanReceive called %d times, reference %d..%d" % (n, canrx[0], canrx[1]))
        if S.cbs(evs, "fatal"):
            self.fail(label + "/fatal", "fatal error callback")
        for iv in S.invs(evs):
            self.fail(label + "/inv", "invariant " + iv)
        for name, want_n in (cbs or {}).items():
            got_n = len(S.cbs(evs, name))
            if isinstance(want_n, tuple):
                if not (want_n[0] <= got_n <= want_n[1]):
                    self.fail(label + "/cb-" + name, "callback %s %d times, reference %d..%d" % (name, got_n, want_n[0], want_n[1]))
            elif got_n != want_n:
                self.fail(label + "/cb-" + name, "callback %s %d times, reference %d" % (name, got_n, want_n))
        return self.ok


def enter(m, x, extra):
    """The node enters mode x (a real change): the application is informed and its scripted reaction runs inside the callback; the
    mode the node ends in is the one requested last."""
    m.transit = True
    if m.cb and m.cb[0] == "trig" and m.cb[1] == x and x == OP:
        extra.append((0x180 + m.nid, bytes([0x77])))       # triggered in OPERATIONAL: sent, not lost; in every other mode: nothing
    if m.cb and m.cb[0] == "set" and m.cb[1] == x:
        return m.cb[2]                                       # target differs from the trigger by construction: no further reaction
    return x


def leave_init(m, want, extra):
    """INITIALISING is left through PRE-OPERATIONAL (boot-up frame); what the application requests in that notification wins."""
    got = enter(m, PREOP, extra)
    if want == PREOP or got != PREOP:
        return got
    return enter(m, want, extra)


def apply_op(m, sim, op, chk):
    """Execute one operation on the real node and check it against the FSM. Returns False on violation."""
    nid = m.nid
    old = m.mode
    boot = []
    extra = []
    resetreq = 0
    rr_sees = None
    is_reset = False
    m.transit = False
    if m.mode == DEAD:
        return True              # after CONodeStop the application calls nothing but the probes
    if op[0] == "rrset":
        m.rr = op[1]
        sim.cmd("resetcb setmode %d" % op[1])
        return True
    if op[0] == "cboff":
        m.rr = None
        sim.cmd("resetcb off")
    if op[0] in ("cbset", "cbtrig", "cboff"):
        m.cb = None if op[0] == "cboff" else (("set", op[1], op[2]) if op[0] == "cbset" else ("trig", op[1]))
        sim.cmd("modecb 0 off" if m.cb is None else ("modecb %d setmode %d" % (op[1], op[2]) if op[0] == "cbset" else "modecb %d trigpdo 0" % op[1]))
        return True
    if op[0] == "nmt":
        _, cs, tgt = op
        consumed = m.mode in (PREOP, OP, STOP)
        if consumed and tgt in (nid, 0):
            tgtmode = {1: OP, 2: STOP, 128: PREOP}.get(cs)
            if tgtmode is not None:
                if tgtmode != m.mode:
                    m.mode = enter(m, tgtmode, extra)
            elif cs in (129, 130):
                is_reset = True
                resetreq = 1
                m.transit = True
                m.mode = leave_init(m, PREOP, extra)
                rr_sees = m.mode
                if m.rr is not None and m.rr != m.mode:
                    m.mode = enter(m, m.rr, extra)
                boot = [(0x700 + nid, b"\x00")]
        evs = sim.rx(0, bytes([cs, tgt]))
        canrx = (0, 0) if consumed else ((0, 1) if old == INIT else (0, 0))
    elif op[0] == "setmode":
        if m.mode == INIT and op[1] != INIT:
            # the only way out of initialisation is PRE-OPERATIONAL with the boot-up frame, whoever asks for it
            m.mode = leave_init(m, op[1], extra)
            boot = [(0x700 + nid, b"\x00")]
        elif op[1] != m.mode:
            if op[1] == INIT:
                m.transit = True
                m.mode = INIT
            else:
                m.mode = enter(m, op[1], extra)
        evs = sim.cmd("setmode %d" % op[1])
        canrx = (0, 0)
    elif op[0] == "reset":
        is_reset = True
        if m.mode != INIT:
            m.transit = True
            m.mode = leave_init(m, PREOP, extra)
            boot = [(0x700 + nid, b"\x00")]
        evs = sim.cmd("nmtreset %d" % op[1])
        canrx = (0, 0)
    elif op[0] == "start":
        if m.mode == INIT:
            m.mode = leave_init(m, PREOP, extra)
            boot = [(0x700 + nid, b"\x00")]
        evs = sim.cmd("start")
        canrx = (0, 0)
    else:
        m.mode = DEAD
        m.transit = True
        evs = sim.cmd("stop")
        canrx = (0, 0)
    if is_reset:
        m.reset(sim.tick)
    chk.what = "op %r in mode %d" % (op, old)
    modes = [int(x[1]) for x in S.cbs(evs, "mode")]
    want_last = m.mode if m.mode != DEAD else 0
    # frames of one operation: the boot-up frame and what the application triggered in its callback (order between them open)
    evs_cmp = evs
    if extra:
        got = sorted((cid, d.hex()) for (t, cid, dlc, d, f) in S.txs(evs))
        want = sorted((cid, d.hex()) for (cid, d) in boot + extra)
        if got != want:
            chk.fail("op/callback-pdo", "transmitted %r, reference %r (TPDO triggered by the application inside the mode change callback)" % (got, want), expected=want, observed=got)
            return False
        evs_cmp = [e for e in evs if e[0] != "tx"]
        boot = []
    if not chk.step(evs_cmp, boot, canrx, {"resetreq": resetreq}, "op"):
        return False
    if resetreq:
        seen = int(S.cbs(evs, "resetreq")[0][2])
        if seen != rr_sees:
            chk.fail("op/reset-request-before-reset", "CONmtResetRequest ran in mode %d, reference %d (the reset has been carried out when the application is told)" % (seen, rr_sees))
            return False
    if not m.transit and not is_reset:
        if modes:
            chk.fail("op/mode-callback-without-change", "mode notification %r although the mode did not change" % modes)
            return False
    else:
        if (m.transit or (is_reset and boot)) and (not modes or modes[-1] != want_last):
            chk.fail("op/mode-callback", "mode notifications %r, last one must be %d" % (modes, want_last))
            return False
    got = int(sim.ret("getmode")[0])
    if got != want_last:
        chk.fail("op/mode", "CONmtGetMode = %d, reference %d" % (got, want_last))
        return False
    return True


def probes(m, sim, chk, res):
    nid = m.nid
    mode = m.mode
    live = mode in (PREOP, OP)
    m.nprobe += 1
    open_unclaimed = (0, 1) if mode in (STOP, INIT) else (0, 0)
    # P0 a failing CAN read is no received frame: whatever the driver left in the buffer, no service reacts
    for frame_id, data in ((0, bytes([1 if mode != OP else 128, nid])), (0x600 + nid, bytes([0x40, 0x00, 0x10, 0x00, 0, 0, 0, 0])), (0x123, bytes([9, 9]))):
        chk.what = "probe failing CAN read (buffer holds frame %x) in mode %d" % (frame_id, mode)
        sim.cmd("fault canread 1")
        evs = sim.rx(frame_id, data)
        if not chk.step(evs, [], (0, 0), {"mode": 0}, "read-error"):
            return False
    got = int(sim.ret("getmode")[0])
    if got != mode and mode != DEAD:
        chk.fail("read-error/mode", "NMT mode %d after failing CAN reads, reference %d" % (got, mode))
        return False
    # P1 SDO read
    chk.what = "probe SDO read in mode %d" % mode
    evs = sim.rx(0x600 + nid, bytes([0x40, 0x00, 0x10, 0x00, 0, 0, 0, 0]))
    if not chk.step(evs, [(0x580 + nid, bytes([0x43, 0x00, 0x10, 0x00, 0x91, 0x01, 0, 0]))] if live else [], (0, 0) if live else open_unclaimed, None, "sdo"):
        return False
    # P1b multi-frame SDO transfers: every frame of a block download / block upload - also those the server does not answer -
    # is claimed by the SDO server and never handed to the application; outside PRE-OPERATIONAL/OPERATIONAL none is answered
    R, T = 0x600 + nid, 0x580 + nid
    dom = bytes(((m.nprobe * 13 + i) & 0xFF) or 1 for i in range(14)) if live else None
    mux = bytes([0x20, 0x20, 0x00])
    cur = m.dom if hasattr(m, "dom") else bytes(range(0x31, 0x3F))
    dialogue = [
        (bytes([0xC2]) + mux + (14).to_bytes(4, "little"), [bytes([0xA0]) + mux + bytes([0x7F, 0, 0, 0])]),
        (bytes([0x01]) + (dom or cur)[:7], []),
        (bytes([0x82]) + (dom or cur)[7:], [bytes([0xA2, 0x02, 0x7F, 0, 0, 0, 0, 0])]),
        (bytes([0xC1]) + bytes(7), [bytes([0xA1]) + bytes(7)]),
        (bytes([0xA0]) + mux + bytes([4, 0, 0, 0]), [bytes([0xC2]) + mux + (14).to_bytes(4, "little")]),
        (bytes([0xA3]) + bytes(7), [bytes([0x01]) + (dom or cur)[:7], bytes([0x82]) + (dom or cur)[7:]]),
        (bytes([0xA2, 0x02, 0x04]) + bytes(5), [bytes([0xC1]) + bytes(7)]),
        (bytes([0xA1]) + bytes(7), []),
    ]
    for k, (rq, rsp) in enumerate(dialogue):
        chk.what = "probe SDO block transfer frame %d (%s) in mode %d" % (k, rq[:1].hex(), mode)
        evs = sim.rx(R, rq)
        if not chk.step(evs, [(T, x) for x in rsp] if live else [], (0, 0) if live else open_unclaimed, None, "sdo-block"):
            return False
    if live:
        m.dom = dom
    # P1c SDO client: a request of the application goes out in PRE-OPERATIONAL and OPERATIONAL only (SDO is not permitted elsewhere)
    if mode != DEAD:
        chk.what = "probe SDO client request in mode %d" % mode
        evs = sim.cmd("csdoup 0 2000 0 4 1000")
        r = [e for e in evs if e[0] == "ret"]
        ok_req = bool(r) and r[0][1] == "0"
        if live != ok_req:
            chk.fail("csdo/request", "COCSdoRequestUpload returned %r in mode %d (reference: %s)" % (r, mode, "accepted" if live else "refused"))
            return False
        if not chk.step(evs, [(0x602, bytes([0x40, 0x00, 0x20, 0x00, 0, 0, 0, 0]))] if live else [], (0, 0), None, "csdo"):
            return False
        if live:
            evs = sim.rx(0x582, bytes([0x80, 0x00, 0x20, 0x00, 0x00, 0x00, 0x02, 0x06]))
            if not chk.step(evs, [], (0, 0), {"csdo": 1}, "csdo-answer"):
                return False
    # P2 RPDO
    v = (m.nprobe * 7 + 3) & 0xFF
    chk.what = "probe RPDO in mode %d" % mode
    evs = sim.rx(0x200 + nid, bytes([v]))
    if mode == OP:
        m.rpdo_val = v
    if not chk.step(evs, [], (0, 0) if mode == OP else ((1, 1) if mode == PREOP else open_unclaimed), {"pdorx": 1 if mode == OP else 0}, "rpdo"):
        return False
    r = sim.ret("rd 2000 0 1")
    if int(r[1], 16) != m.rpdo_val:
        chk.fail("rpdo/object", "object 2000h:0 = %s, reference %x" % (r[1], m.rpdo_val))
        return False
    # P3 SYNC
    chk.what = "probe SYNC in mode %d" % mode
    evs = sim.rx(0x80, b"")
    want_upd = 0
    if mode == OP and m.srpdo_pending is not None:
        m.srpdo_val = m.srpdo_pending
        m.srpdo_pending = None
        want_upd = 1
    if not chk.step(evs, [(0x280 + nid, bytes([0x77]))] if mode == OP else [], (0, 0) if live else open_unclaimed,
                    {"pdotx": 1 if mode == OP else 0, "pdosync": want_upd}, "sync"):
        return False
    r = sim.ret("rd 2002 0 1")
    if int(r[1], 16) != m.srpdo_val:
        chk.fail("rpdo-sync/object", "object of the synchronous RPDO = %s, reference %x (mode %d)" % (r[1], m.srpdo_val, mode))
        return False
    # P4 heartbeat of monitored node 9
    st = 5 if m.nprobe % 2 else 127
    chk.what = "probe heartbeat consumer in mode %d" % mode
    evs = sim.rx(0x709, bytes([st]))
    hb_ok = mode in (PREOP, OP, STOP)
    change = 1 if (hb_ok and m.hbc_state != st) else 0
    if hb_ok:
        m.hbc_state = st
    if not chk.step(evs, [], (0, 0) if hb_ok else ((0, 1) if mode == INIT else (0, 0)), {"hbchange": change}, "hbcons"):
        return False
    # P5 LSS (every mode except after CONodeStop, where it is open)
    if mode != DEAD:
        chk.what = "probe LSS in mode %d" % mode
        evs = sim.rx(0x7E5, bytes([4, 1, 0, 0, 0, 0, 0, 0]))
        if not chk.step(evs, [], (0, 0), None, "lss"):
            return False
        evs = sim.rx(0x7E5, bytes([0x5E, 0, 0, 0, 0, 0, 0, 0]))
        if live:
            if not chk.step(evs, [(0x7E4, bytes([0x5E, nid, 0, 0, 0, 0, 0, 0]))], (0, 0), None, "lss"):
                return False
        else:
            # outside PRE-OPERATIONAL / OPERATIONAL the statement lists NMT and heartbeat only, CiA 305 lets LSS work in every state:
            # both readings are accepted (an answer, if any, is the LSS answer; the frame never reaches another service)
            ans = [(cid, d) for (t, cid, dlc, d, f) in S.txs(evs)]
            if ans not in ([], [(0x7E4, bytes([0x5E, nid, 0, 0, 0, 0, 0, 0]))]) or S.cbs(evs, "canrx"):
                chk.fail("lss/frames", "LSS inquiry in mode %d: frames %r" % (mode, [("%x" % c, d.hex()) for c, d in ans]))
                return False
    # P6 foreign identifier
    chk.what = "probe foreign identifier in mode %d" % mode
    evs = sim.rx(0x123, bytes([1, 2, 3]))
    if not chk.step(evs, [], (1, 1) if live else open_unclaimed, None, "foreign"):
        return False
    # P6b identifiers that equal a service identifier in their low bits only (29-bit / flag bits set; one of eight per probe round): no
    # service claims them - an NMT command byte in such a frame commands nothing
    exo = [(0x20000000, "nmt"), (0x40000000, "nmt"), (0x00010000, "nmt"), (0x80000000, "nmt"), (0x1FFF0000, "nmt"),
           (0x20000000 | (0x600 + nid), "sdo"), (0x00010000 | 0x80, "sync"), (0x20000000 | 0x7E5, "lss")][m.nprobe % 8]
    data = {"nmt": bytes([1 if mode != OP else 128, nid]), "sdo": bytes([0x40, 0x00, 0x10, 0x00, 0, 0, 0, 0]), "sync": b"", "lss": bytes([0x5E, 0, 0, 0, 0, 0, 0, 0])}[exo[1]]
    chk.what = "probe identifier %x (looks like %s in its low bits) in mode %d" % (exo[0], exo[1], mode)
    evs = sim.rx(exo[0], data)
    if not chk.step(evs, [], (1, 1) if live else open_unclaimed, {"mode": 0, "resetreq": 0, "pdotx": 0}, "foreign-high-bits"):
        return False
    got = int(sim.ret("getmode")[0])
    if got != mode and mode != DEAD:
        chk.fail("foreign-high-bits/mode", "NMT mode %d after the frame, reference %d" % (got, mode))
        return False
    # P7 EMCY set / clear
    chk.what = "probe EMCY in mode %d" % mode
    if m.emcy:
        evs = sim.cmd("emcyclr 0")
        fr = [(0x80 + nid, bytes([0, 0, 0, 0, 0, 0, 0, 0]))]
    else:
        evs = sim.cmd("emcyset 0")
        fr = [(0x80 + nid, bytes([0x00, 0x10, 0x01, 0, 0, 0, 0, 0]))]
    m.emcy = not m.emcy
    if not chk.step(evs, fr if live else [], (0, 0), None, "emcy"):
        return False
    # P8 TPDO trigger
    chk.what = "probe TPDO trigger in mode %d" % mode
    evs = sim.cmd("trigpdo 0")
    if not chk.step(evs, [(0x180 + nid, bytes([0x77]))] if mode == OP else [], (0, 0), {"pdotx": 1 if mode == OP else 0}, "tpdo"):
        return False
    # P9 heartbeat producer ticks
    chk.what = "probe heartbeat producer ticks in mode %d" % mode
    t0 = sim.tick
    evs = sim.cmd("tick %d" % (HB + 3))
    t1 = sim.tick
    exp = []
    if mode in (PREOP, OP, STOP):
        for t in range(t0 + 1, t1 + 1):
            if t > m.hb_base and (t - m.hb_base) % HB == 0:
                exp.append((t, 0x700 + nid, bytes([CODE[mode]])))
    got = [(t, cid, d) for (t, cid, dlc, d, f) in S.txs(evs)]
    if got != exp:
        chk.fail("hbprod/frames", "heartbeats %r, reference %r (producer started at tick %d)" % (
            [(t, "%x" % c, d.hex()) for t, c, d in got], [(t, "%x" % c, d.hex()) for t, c, d in exp], m.hb_base))
        return False
    res.counters["probes"] += 20
    return True


def run_sequence(res, sim, nid, ops):
    sim.cmd("restart")
    m = Model(nid)
    chk = Check(res, sim, "")
    changes = 0
    for op in ops:
        old = m.mode
        if m.mode == OP:
            # a synchronous RPDO received before the operation: it must take effect at the SYNC probe after the operation iff the
            # node stayed OPERATIONAL the whole time (a command that does not change the state changes nothing)
            v = (m.nprobe * 11 + 5) & 0xFF
            evs = sim.rx(0x300 + nid, bytes([v]))
            m.srpdo_pending = v
            if S.txs(evs) or len(S.cbs(evs, "pdorx")) != 1:
                chk.what = "synchronous RPDO before op %r" % (op,)
                chk.fail("rpdo-sync/receive", "reception of a synchronous RPDO in OPERATIONAL: %r" % evs)
                return False
        if not apply_op(m, sim, op, chk):
            return False
        if m.mode != OP or old != OP or m.transit:
            if m.mode == OP:
                m.srpdo_pending = None          # (re-)entering OPERATIONAL starts with empty buffers
            elif m.mode == DEAD:
                m.srpdo_pending = None
        changes += (m.mode != old or m.transit)
        res.states.add((old, op[0], op[1] if len(op) > 1 else 0, m.mode))
        if not probes(m, sim, chk, res):
            return False
    res.evals += 1
    if changes:
        res.nt(tuple(ops))
    return True


def plan(tier, seed):
    q = tier == "quick"
    nops = len(alphabet(1))
    depth = 3 if q else 4
    items = []
    # complete enumeration: split by the first two operations
    for a in range(nops):
        for b0 in range(0, nops, 7 if q else 2):
            items.append(("enum", depth, a, b0, min(nops, b0 + (7 if q else 2))))
    items += [("rand", i, 60 if q else 400) for i in range(32 if q else 128)]
    items += [("csdo-stopped", i, 0) for i in range(3)]
    items += [("lss-activate", i, 0) for i in range(3)]
    # every scripted callback reaction x (armed before / after the start) x every pair (thorough: triple) of operations
    items += [("cbenum", ci, early, 2 if q else 3) for ci in range(len(callback_ops()) - 1) for early in (0, 1)]
    return items


def work(item, ctx):
    res = F.Res()
    exe = ctx["exes"]["asan"]
    kind = item[0]
    rng = random.Random(F.seed_for(ctx["seed"], "C09", *item))
    nid = rng.choice([1, 5, 127]) if kind in ("rand", "csdo-stopped", "lss-activate") else [1, 5, 127][(item[2] + item[3]) % 3]
    cbops = callback_ops()
    alpha = alphabet(nid)
    sim = S.Sim(exe, make_cfg(nid))
    try:
        if kind == "csdo-stopped":
            # an SDO client transfer is open when the node is stopped: its timeout ends it, but a stopped node transmits nothing
            # except its heartbeat - no SDO abort frame either
            tmo = [5, 20, 60][item[1]]
            sim.cmd("csdoup 0 2000 0 4 %d" % tmo)
            sim.rx(0, bytes([2, nid]))
            evs = sim.cmd("tick %d" % (tmo + HB + 5))
            res.evals += 1
            bad = [(cid, d.hex()) for (t, cid, dlc, d, f) in S.txs(evs) if cid != 0x700 + nid]
            if bad or len(S.cbs(evs, "csdo")) != 1:
                res.violation("c09/stopped/csdo-timeout", "SDO client transfer open at NMT stop (timeout %d ms): the stopped node transmitted %r, %d completion callbacks (reference: heartbeats only, one callback)" % (
                    tmo, [("%x" % c, d) for c, d in bad], len(S.cbs(evs, "csdo"))), sim=sim)
            res.nt("csdo-stopped", item[1])
            return res
        if kind == "lss-activate":
            # the LSS bit timing switch takes the node through INITIALISING: when it is back in PRE-OPERATIONAL it has entered that
            # state from initialisation, so exactly one boot-up frame is due (and none while the switch is running)
            d = [5, 10, 20][item[1]]
            sim.cmd("restart"); sim.cmd("start")
            for rq in (bytes([4, 1, 0, 0, 0, 0, 0, 0]), bytes([19, 0, 4, 0, 0, 0, 0, 0]), bytes([21]) + d.to_bytes(2, "little") + bytes(5)):
                sim.rx(0x7E5, rq)
            evs = sim.cmd("tick %d" % (d + 1))
            during = int(sim.ret("getmode")[0])
            evs += sim.cmd("tick %d" % (2 * d + 5))
            boots = [t for (t, cid, dlc, dd, f) in S.txs(evs) if cid == 0x700 + nid and dd == b"\x00"]
            mode = int(sim.ret("getmode")[0])
            res.evals += 1
            if during != INIT or mode != PREOP or len(boots) != 1:
                res.violation("c09/lss-activate/bootup", "LSS activate bit timing (switch delay %d ms): mode %d during the switch (reference 1), mode %d afterwards (reference 2), %d boot-up frames (reference 1)" % (
                    d, during, mode, len(boots)), sim=sim)
            res.nt("lss-activate", item[1])
            return res
        if kind == "cbenum":
            _, ci, early, depth = item
            for rest in itertools.product(range(len(alpha)), repeat=depth):
                tail = [alpha[i] for i in rest]
                ops = ([cbops[ci], ("start",)] if early else [("start",), cbops[ci]]) + tail
                if not run_sequence(res, sim, nid, ops):
                    return res
            if ci == 0 and early:
                res.sample({"callback_reaction": repr(cbops[ci]), "armed_before_start": True, "tails": len(alpha) ** depth})
            return res
        if kind == "enum":
            _, depth, a, b0, b1 = item
            # every sequence begins started (PREOP); INIT is reached through setmode/reset inside the sequence
            for b in range(b0, b1):
                for rest in itertools.product(range(len(alpha)), repeat=depth - 2):
                    ops = [("start",), alpha[a], alpha[b]] + [alpha[i] for i in rest]
                    if not run_sequence(res, sim, nid, ops):
                        return res
            if a == 0 and b0 == 0:
                res.sample({"enumerated_prefix": [repr(alpha[a]), repr(alpha[b0])], "depth": depth, "alphabet": len(alpha)})
        else:
            _, idx, n = item
            for k in range(n):
                ops = [alpha[rng.randrange(len(alpha))] if rng.random() < 0.85 else rng.choice(cbops) for _ in range(rng.choice([6, 10, 16]))]
                if rng.random() < 0.8:
                    ops = [("start",)] + ops
                ops = [o for o in ops if o[0] != "stop" or rng.random() < 0.3]
                if not run_sequence(res, sim, nid, ops):
                    return res
            if idx == 0:
                res.sample({"random_sequence": [repr(o) for o in ops]})
    except S.SimDied as e:
        res.violation("c09/crash/" + e.signature, "executor died: " + e.signature, sim=sim, detail=e.detail[-2000:])
    finally:
        sim.close()
    return res


def selftest(ctx):
    r = F.Res()
    c = Check(r, None, "selftest")
    assert not c.step([["tx", "0", "701", "1", "00"], ["tx", "0", "701", "1", "00"]], [(0x701, b"\x00")], (0, 0), None, "op")
    assert r.violations and r.violations[0]["key"] == "c09/op/frames"
    r = F.Res()
    c = Check(r, None, "selftest")
    assert not c.step([["cb", "canrx", "123", "0", "-"]], [], (0, 0), None, "sdo")


def finish(total, tier):
    p = []
    if len(total.states) < 60:
        p.append("only %d distinct (mode, operation, new mode) transitions observed" % len(total.states))
    return p


def replay(case, ctx):
    return F.replay_log(case, ctx)
