"""C02-C05: SDO server monitors.

A reference client (refsdo.py) makes every choice a conforming client may make
and checks each server response; the end state is compared on the real object
storage of the whole dictionary (so "nothing else changed" is part of every
verdict).  C04 adds a relational model of verdicts / response counts, C05
probes recovery from hostile histories."""
import random, types
import framework as F
import sim as S
import gen
import refsdo as RC
from sim import Obj, Config, var, string, domain, W, R, P, A, N, D, RW

LEVEL = "exploration"

SIZES = [1, 2, 3, 4, 5, 6, 7, 8, 13, 14, 15, 20, 21, 50, 100, 255, 256, 300, 882, 888, 889, 890, 896, 1000, 1777, 1778, 1779, 2000, 4000]


# ------------------------------------------------------------------- model
class OM:
    """Model of one dictionary object as seen through SDO."""

    def __init__(self, idx, sub, kind, flags, width=0, val=0, data=b"", usr=None):
        self.idx, self.sub, self.kind, self.flags, self.width = idx, sub, kind, flags, width
        self.val = val          # ints: logical value (what an SDO read returns)
        self.data = data        # str: content; dom: whole buffer
        self.usr = usr          # (size, rderr, wrerr, abortcode)

    @property
    def readable(self):
        return bool(self.flags & R)

    @property
    def writable(self):
        return bool(self.flags & W)

    def size(self):
        if self.kind == "int":
            return self.width
        if self.kind == "usr":
            return self.usr[0]
        return len(self.data)

    def bytes(self):
        if self.kind == "int":
            return self.val.to_bytes(self.width, "little")
        return self.data

    def token(self, nid):
        """Expected token in the executor's storage dump."""
        if self.kind == "int":
            v = self.val
            if self.flags & N:
                v = (v - nid) & ((1 << (8 * self.width)) - 1)
            return "%x" % v
        if self.kind == "str":
            return (self.data + b"\0").hex()
        if self.kind == "dom":
            return self.data.hex() or "-"       # the executor prints '-' for no bytes
        return None      # not compared


class World:
    """Configuration + object models for one executor instance."""

    def __init__(self, rng, ns=1, nid=None, small=False, enum64=False, huge=(), resetdev=False):
        self.rng, self.ns = rng, ns
        self.nid = nid if nid is not None else rng.choice([1, 1, 2, 64, 127])
        cfg = Config(nodeid=self.nid, freq=1000, tmrnum=8)
        gen.add_mandatory(cfg, ssdo=ns, ssdo_rw=False, emcy_hist=0, ssdo_dyn=(ns > 1 and rng.random() < 0.5))
        self.om = {}
        m = self.om

        def addint(idx, sub, flags, width, val=None):
            val = rng.getrandbits(8 * width) if val is None else val
            stored = (val - self.nid) & ((1 << (8 * width)) - 1) if flags & N else val
            cfg.add(var(idx, sub, flags, width, stored))
            m[(idx, sub)] = OM(idx, sub, "int", flags, width=width, val=val)

        sub = 0
        for fl in (RW, D | RW, N | RW, D | N | RW):
            for w in (1, 2, 4):
                addint(0x2100, sub, fl, w); sub += 1
        addint(0x2104, 0, R, 4); addint(0x2104, 1, W, 4); addint(0x2104, 2, R, 2); addint(0x2104, 3, W, 1)
        addint(0x2104, 4, D | R, 4); addint(0x2104, 5, D | W, 2)
        # direct-storage entries whose stored value is 0 (the entry's data field is the value, not a pointer)
        addint(0x2105, 0, D | RW, 1, 0); addint(0x2105, 1, D | RW, 2, 0); addint(0x2105, 2, D | RW, 4, 0); addint(0x2105, 3, D | R, 4, 0)
        addint(0x2105, 4, D | N | RW, 2, self.nid); addint(0x2105, 5, D | N | RW, 4, self.nid)
        # entries in the upper half of the index range (network variables, profile area)
        addint(0xA000, 0, RW, 4); addint(0xA000, 1, R, 2); addint(0xA580, 0, RW, 1); addint(0xFFFF, 0, RW, 4)
        lens = [1, 2, 3, 4, 5, 7, 8, 14, 15, 100] + ([] if small else [rng.choice([255, 256, 300]), rng.choice([888, 889, 890]), 1000])
        lens.append(0)                # an empty string is a readable object of length 0
        for i, ln in enumerate(lens):
            d = gen.rand_nonzero_bytes(rng, ln)
            cfg.add(string(0x2110, i, d)); m[(0x2110, i)] = OM(0x2110, i, "str", R, data=d)
        sizes = [1, 2, 3, 4, 5, 7, 8, 20, 100] + ([] if small else [rng.choice([882, 888, 889]), rng.choice([890, 896, 1000]), rng.choice([1777, 1778, 1779]), rng.choice([2000, 4000])])
        if enum64:
            sizes = list(range(1, 65))
        for i, sz in enumerate(sizes):
            d = gen.rand_bytes(rng, sz)
            cfg.add(domain(0x2120, i, sz, d)); m[(0x2120, i)] = OM(0x2120, i, "dom", RW, data=d)
        d = gen.rand_bytes(rng, 30)
        cfg.add(domain(0x2121, 0, 30, d, flags=R)); m[(0x2121, 0)] = OM(0x2121, 0, "dom", R, data=d)
        d = gen.rand_bytes(rng, 30)
        cfg.add(domain(0x2121, 1, 30, d, flags=W)); m[(0x2121, 1)] = OM(0x2121, 1, "dom", W, data=d)
        # and so is a (read-only) domain that holds nothing at the moment, e.g. an empty log
        cfg.add(domain(0x2122, 0, 0, b"", flags=R)); m[(0x2122, 0)] = OM(0x2122, 0, "dom", R, data=b"")
        # domains beyond 2^16 bytes (content by formula, see the executor's "@seed")
        for i, sz in enumerate(huge):
            sd = rng.randrange(256)
            d = bytes((j * 167 + (j >> 8) * 13 + sd) & 0xFF for j in range(sz))
            cfg.add(Obj(0x2123, i, RW, "dom", "M", sz, "@%d" % sd)); m[(0x2123, i)] = OM(0x2123, i, "dom", RW, data=d)
        # user type objects: (size, rderr, wrerr, abort)
        usr = [(4, 0, 0, 0), (4, S.ERR["OBJ_READ"], S.ERR["OBJ_WRITE"], 0), (2, S.ERR["OBJ_RANGE"], S.ERR["OBJ_RANGE"], 0),
               (4, S.ERR["OBJ_MAP_TYPE"], S.ERR["OBJ_MAP_TYPE"], 0), (4, S.ERR["OBJ_MAP_LEN"], S.ERR["OBJ_MAP_LEN"], 0),
               (4, S.ERR["OBJ_INCOMPATIBLE"], S.ERR["OBJ_INCOMPATIBLE"], 0), (4, S.ERR["OBJ_ACC"], S.ERR["OBJ_ACC"], 0),
               (1, S.ERR["TYPE_RD"], S.ERR["TYPE_WR"], 0x06090032), (4, S.ERR["TYPE_RD"], S.ERR["TYPE_WR"], 0x08000021),
               # objects larger than 4 bytes whose type refuses the access (locked by the application)
               (6, S.ERR["OBJ_READ"], S.ERR["OBJ_WRITE"], 0), (6, 0, S.ERR["OBJ_ACC"], 0), (6, S.ERR["TYPE_RD"], 0, 0),
               # ... and which name their own abort code while doing so (only expedited transfers forward it)
               (6, S.ERR["TYPE_RD"], S.ERR["TYPE_WR"], 0x08000022), (9, 0, S.ERR["TYPE_WR"], 0x06060000),
               # the application's code together with an error the stack has its own code for: the application's code is sent
               (4, S.ERR["OBJ_RANGE"], S.ERR["OBJ_RANGE"], 0x06090031), (2, S.ERR["OBJ_MAP_TYPE"], S.ERR["OBJ_MAP_TYPE"], 0x06040047),
               (1, S.ERR["OBJ_INCOMPATIBLE"], S.ERR["OBJ_MAP_LEN"], 0x08000024)]
        for i, u in enumerate(usr):
            cfg.add(Obj(0x2130, i, RW, "usr", "U", u[0], u[1], u[2], "%x" % u[3], 0x11223344))
            m[(0x2130, i)] = OM(0x2130, i, "usr", RW, usr=u)
        if resetdev:
            # a "firmware download" object of 1000 bytes whose write function resets the communication (the application restarts the
            # node when it has seen the header); not part of the model
            cfg.add(Obj(0x2131, 0, RW, "usr", "U", 1000, 0, 0, "c0de0092", 0))
        # SDO client parameters (writable, not part of the model: only hostile traffic touches them)
        gen.add_csdo(cfg, 0, server=rng.choice([2, 5, 127]))
        cfg.finalize()
        self.cfg = cfg
        self.indices = set(o.idx for o in cfg.objs)
        self.keys = set((o.idx, o.sub) for o in cfg.objs)
        self.order = [(o.idx, o.sub) for o in cfg.objs]

    def req_id(self, s=0):
        return 0x600 + 0x10 * s + self.nid

    def resp_id(self, s=0):
        return 0x580 + 0x10 * s + self.nid

    def expected_dump(self):
        out = []
        for k in self.order:
            o = self.om.get(k)
            out.append(o.token(self.nid) if o is not None else None)
        return out

    def check_dump(self, sim):
        act = sim.dump()
        exp = self.expected_dump()
        bad = []
        for k, a, e in zip(self.order, act, exp):
            if e is not None and a != e:
                bad.append(("%04x:%02x" % k, e[:80], a[:80]))
        return bad

    def pick(self, pred):
        c = [o for o in self.om.values() if pred(o)]
        return self.rng.choice(c)


# ---------------------------------------------------------------- verdicts
E_OBJ, E_SUB, E_WR, E_RD = 0x06020000, 0x06090011, 0x06010002, 0x06010001
E_HIGH, E_SMALL, E_TBIT, E_CMD = 0x06070012, 0x06070013, 0x05030000, 0x05040001
TYPE_CODE = {S.ERR["OBJ_RANGE"]: 0x06090030, S.ERR["OBJ_MAP_TYPE"]: 0x06040041, S.ERR["OBJ_MAP_LEN"]: 0x06040042,
             S.ERR["OBJ_INCOMPATIBLE"]: 0x06040043}


def resolve(world, idx, sub, write):
    """Initiate-time refusal code prescribed by the statement, or None."""
    if idx not in world.indices:
        return E_OBJ
    if (idx, sub) not in world.keys:
        return E_SUB
    o = world.om.get((idx, sub))
    if o is None:
        return None
    if write and not o.writable:
        return E_WR
    if not write and not o.readable:
        return E_RD
    return None


# ---------------------------------------------------------------- running
class Runner:
    def __init__(self, res, sim, world, prop):
        self.res, self.sim, self.world, self.prop = res, sim, world, prop
        self.dead = False

    def step(self, s, frame):
        """Send one request to server s; returns frames on its response id; flags anything else."""
        w = self.world
        s = getattr(self, "remap", {}).get(s, s)        # (a monitor written for server 0 run against another server)
        evs = self.sim.rx(w.req_id(s), frame)
        own, other = [], []
        for (t, cid, dlc, data, failed) in S.txs(evs):
            (own if cid == w.resp_id(s) else other).append((cid, data))
        for iv in S.invs(evs):
            self.res.violation("%s/inv/%s" % (self.prop.lower(), iv.split()[0]), "invariant: " + iv, sim=self.sim)
        if other:
            self.res.violation("%s/foreign-frame" % self.prop.lower(), "request on server %d produced a frame on id %x" % (s, other[0][0]), sim=self.sim)
        for e in evs:
            if e[0] == "cb" and e[1] in ("fatal", "canrx"):
                self.res.violation("%s/cb-%s" % (self.prop.lower(), e[1]), "callback %s during SDO request" % e[1], sim=self.sim)
        self.res.counters["requests"] += 1
        self.res.counters["responses"] += len(own)
        self.last_failed = [bool(failed) for (t, cid, dlc, data, failed) in S.txs(evs) if cid == w.resp_id(s)]
        return [d for (_, d) in own]

    def transfer(self, s, coro, noise=None):
        """Drive one client coroutine to completion on server s; noise() may inject traffic for another server between steps."""
        try:
            frame = next(coro)
            while True:
                if noise is not None:
                    noise()
                resp = self.step(s, frame)
                frame = coro.send(resp)
        except StopIteration as e:
            return e.value

    def interleave(self, coros):
        """coros: list of (server, coroutine); random interleaving of their steps."""
        rng = self.world.rng
        live = []
        out = {}
        for s, c in coros:
            try:
                live.append([s, c, next(c)])
            except StopIteration as e:
                out[s] = e.value
        while live:
            ent = rng.choice(live)
            s, c, frame = ent
            resp = self.step(s, frame)
            try:
                ent[2] = c.send(resp)
            except StopIteration as e:
                out[s] = e.value
                live.remove(ent)
        return out


def lose_fn(rng, pattern):
    if pattern == "none":
        return None
    if pattern == "first":
        return lambda b, seq, n: seq == 1 and b % 2 == 0
    if pattern == "middle":
        return lambda b, seq, n: seq == max(1, n // 2) and b % 2 == 0
    if pattern == "secondlast":
        return lambda b, seq, n: seq == n - 1 and b % 2 == 0
    if pattern == "several":
        memo = {}
        def f(b, seq, n):
            if (b, seq) not in memo:
                memo[(b, seq)] = rng.random() < 0.03 and b % 3 != 2
            return memo[(b, seq)]
        return f
    if pattern == "all-but-last":
        return lambda b, seq, n: b == 0
    raise ValueError(pattern)


def make_download(rng, o, payload, mode, size_ind, opts):
    if mode == "exp":
        return RC.run(RC.download_expedited, o.idx, o.sub, payload, size_ind)
    if mode == "seg":
        return RC.run(RC.download_segmented, o.idx, o.sub, payload, size_ind, fill_rng=rng if opts.get("fill") else None,
                      segbytes=opts.get("segbytes", 7), n0_last=opts.get("n0_last", False))
    return RC.run(RC.download_block, o.idx, o.sub, payload, size_ind, crc=opts.get("crc", False),
                  lose=lose_fn(rng, opts.get("lose", "none")), pad_rng=rng if opts.get("fill") else None, empty_last=opts.get("empty_last", False))


def apply_download(o, payload):
    if o.kind == "int":
        o.val = int.from_bytes(payload, "little")
    elif o.kind == "dom":
        o.data = payload + o.data[len(payload):]


def choose_download(rng, world, big=True):
    """A download a conforming client may perform and that must succeed."""
    o = world.pick(lambda o: o.writable and o.kind in ("int", "dom") and (big or o.size() <= 1000))
    if o.kind == "int":
        payload = gen.rand_bytes(rng, o.width)
        mode = rng.choice(["exp", "exp", "seg", "blk"])
    else:
        cap = len(o.data)
        ln = rng.choice([cap, cap, rng.randint(1, cap), rng.choice([s for s in SIZES if s <= cap]), max(7, cap - cap % 7) if cap >= 7 else cap])
        payload = gen.rand_bytes(rng, ln)
        mode = rng.choice(["seg", "blk", "blk"]) if ln > 4 else rng.choice(["exp", "seg", "blk"])
    size_ind = rng.random() < 0.7
    opts = {"fill": rng.random() < 0.5}
    if mode == "seg":
        # segments need not be full, and a client that indicated the size may leave n = 0 in the last segment
        opts["segbytes"] = rng.choice([7, 7, 7, 7, 4, 1, 2, 3, 5, 6])
        opts["n0_last"] = size_ind and rng.random() < 0.2
    if mode == "blk":
        opts["crc"] = rng.random() < 0.3
        opts["lose"] = rng.choice(["none", "none", "first", "middle", "secondlast", "several", "all-but-last"])
        # any fill of the last segment: a payload of whole segments may be followed by a last segment that only carries the c bit (n = 7)
        opts["empty_last"] = len(payload) % 7 == 0 and rng.random() < 0.5
    if mode == "exp" and not size_ind and o.kind == "dom":
        size_ind = True          # e=1,s=0 carries no length: only meaningful for fixed-size objects
    return o, payload, mode, size_ind, opts


# ------------------------------------------------------------------- C02
def c02_shared_object_witness(res, ctx):
    """Two servers on the SAME domain: the transfer position lives in the object (CO_OBJ_DOM.Offset), so an upload started on server 1
    between two segments of a download on server 0 rewinds it. Recorded finding (needs per-server positions: no small repair); the random
    two-server workloads use distinct objects for this reason."""
    rng = random.Random(1)
    world = World(rng, ns=2)
    sim = S.Sim(ctx["exes"]["asan2"], world.cfg)
    run = Runner(res, sim, world, "C02")
    try:
        o = world.pick(lambda o: o.kind == "dom" and o.writable and 14 <= len(o.data) <= 100)
        payload = bytes(range(1, 15))
        m3 = RC.mux(o.idx, o.sub)
        r = run.step(0, bytes([0x21]) + m3 + (14).to_bytes(4, "little"))
        r = run.step(0, bytes([0x00]) + payload[:7])
        r1 = run.step(1, bytes([0x40]) + m3 + bytes(4))                # another client starts reading the same object
        run.step(1, RC.abort_frame(o.idx, o.sub, 0x08000000))
        r = run.step(0, bytes([0x11]) + payload[7:])
        res.evals += 1
        confirmed = len(r) == 1 and r[0][0] == 0x30
        act = bytes.fromhex(sim.dump()[world.order.index((o.idx, o.sub))].replace("-", ""))
        if confirmed and act[:14] != payload:
            res.violation("c02/shared-object/offset", "download of 14 bytes to %04x:%02x on server 0 confirmed, an upload of the same object was started on server 1 "
                          "after the first segment: object holds %s.., transmitted %s" % (o.idx, o.sub, act[:14].hex(), payload.hex()), sim=sim)
    finally:
        sim.close()
    return res


def c02_work(item, ctx):
    res = F.Res()
    kind, idx, n = item
    if kind == "shared":
        return c02_shared_object_witness(res, ctx)
    two = kind == "two"
    twoh = kind in ("twoh", "twoc")
    exe = ctx["exes"]["asan2" if (two or twoh) else "asan"]
    rng = random.Random(F.seed_for(ctx["seed"], "C02", kind, idx))
    world = World(rng, ns=2 if (two or twoh) else 1)
    sim = S.Sim(exe, world.cfg)
    run = Runner(res, sim, world, "C02")
    noise = None
    if kind == "twoc":
        # the OTHER server is switched off and on again (its COB-IDs 1201h:1/2, bit 31) by the application between the steps of the
        # reference transfer on server 0: resetting one server is no business of the other
        def noise():
            if rng.random() < 0.5:
                sub = rng.choice([1, 2])
                cur = int(sim.ret("rd 1201 %d 4" % sub)[1], 16)
                r_ = sim.ret("wr 1201 %d 4 %x" % (sub, cur ^ 0x80000000))
                res.counters["other_server_switched"] += 1
                if r_ and r_[0] != "0":
                    res.violation("c02/other-server/cob-id-write", "application write of %x to 1201h:%d returned %r" % (cur ^ 0x80000000, sub, r_), sim=sim)
    elif twoh:
        # hostile traffic on the OTHER server while the reference client works on server 0; it addresses only objects the
        # reference transfer does not use (index 2100h sub-indices >= 6 and the strings), so the model stays valid
        import hostile as H
        g = H.Hostile(rng, world.cfg, 2)
        g.muxes = [k for k in world.om if k[0] in (0x2110, 0x2130)] + [(0x5000, 0), (0x1000, 0)]

        def noise():
            if rng.random() < 0.6:
                for _ in range(rng.choice([1, 1, 2, 5])):
                    l = g.sdo_frame(1) if rng.random() < 0.8 else rng.choice(g.sdo_dialogue() or [g.sdo_frame(1)])
                    parts = l.split()
                    parts[1] = "%x" % world.req_id(1)
                    evs = sim.cmd(" ".join(parts))
                    res.counters["hostile_frames_other_server"] += 1
                    for (t, cid, dlc, d, f) in S.txs(evs):
                        if cid != world.resp_id(1):
                            res.violation("c02/foreign-frame/hostile-other-server", "traffic on server 1 produced a frame on id %x" % cid, sim=sim)
                    for iv in S.invs(evs):
                        res.violation("c02/inv/" + iv.split()[0], "invariant: " + iv, sim=sim)
    try:
        bad = world.check_dump(sim)
        if bad:
            res.inconclusive.append("model/executor disagree on initial storage: %r" % bad[:2])
            return res
        for t in range(n):
            if kind == "sizes":
                # every size once per mode on the largest domain
                o = max((x for x in world.om.values() if x.kind == "dom" and x.writable), key=lambda x: len(x.data))
                ln = 1 + (idx * n + t) % len(o.data)
                payload = gen.rand_bytes(rng, ln)
                mode = ["seg", "blk"][t % 2]
                size_ind = bool((t // 2) % 2)
                opts = {"lose": "none" if t % 4 < 2 else "several", "fill": True}
                cases = [(0, o, payload, mode, size_ind, opts)]
            elif two:
                a = choose_download(rng, world)
                b = choose_download(rng, world)
                while b[0] is a[0]:
                    b = choose_download(rng, world)
                cases = [(0,) + a, (1,) + b]
            elif twoh:
                c = choose_download(rng, world)
                while c[0].idx not in (0x2100, 0x2120):
                    c = choose_download(rng, world)
                cases = [(0,) + c]
            elif rng.random() < 0.12:
                # more bytes than the object can hold (a client does not know the capacity): the download must never be confirmed, and
                # whatever part of it was written before the abort lies inside the object (a prefix of the payload)
                o = world.pick(lambda o: o.writable and o.kind == "dom" and len(o.data) <= 1000)
                cap = len(o.data)
                payload = gen.rand_bytes(rng, cap + rng.choice([1, 2, 6, 7, 8, 14, 100, 900]))
                mode = rng.choice(["seg", "seg", "blk"])
                si = rng.random() < 0.4
                opts = {"fill": rng.random() < 0.5}
                out = run.transfer(0, make_download(rng, o, payload, mode, si, opts))
                res.evals += 1
                res.counters["overlong_downloads"] += 1
                desc = "%s download of %d bytes to %04x:%02x (domain of %d bytes, size %s)" % (mode, len(payload), o.idx, o.sub, cap, "indicated" if si else "not indicated")
                if out.kind == "ok":
                    res.violation("c02/overlong-confirmed/%s/%s" % (mode, "size" if si else "nosize"), desc + ": confirmed, but the object cannot hold the transmitted bytes", sim=sim)
                    return res
                if out.kind == "deviation":
                    res.violation("c02/response/%s/%s" % (out.deviation.rule, mode), desc + ": " + out.deviation.desc, sim=sim)
                    return res
                act = sim.dump()[world.order.index((o.idx, o.sub))]
                actb = bytes.fromhex(act) if act != "-" else b""
                if not any(actb == payload[:k] + o.data[k:] for k in range(cap + 1)):
                    res.violation("c02/overlong-storage/%s" % mode, desc + ": after the abort the object is neither unchanged nor holds a prefix of the payload", sim=sim)
                    return res
                o.data = actb
                res.nt("overlong", mode, o.idx, o.sub, len(payload), si)
                bad = world.check_dump(sim)
                if bad:
                    res.violation("c02/storage/overlong", "after the refused over-long download storage differs: %r" % bad[:3], sim=sim)
                    return res
                continue
            else:
                cases = [(0,) + choose_download(rng, world)]
            coros = [(s, make_download(rng, o, payload, mode, si, opts)) for (s, o, payload, mode, si, opts) in cases]
            outs = run.interleave(coros) if two else {0: run.transfer(0, coros[0][1], noise)}
            res.evals += len(cases)
            for (s, o, payload, mode, si, opts) in cases:
                out = outs[s]
                desc = "%s download of %d bytes to %04x:%02x (%s, size %s, %s) on server %d" % (
                    mode, len(payload), o.idx, o.sub, o.kind, "indicated" if si else "not indicated", opts, s)
                res.counters["dl_" + mode] += 1
                if out.kind == "deviation":
                    res.violation("c02/response/%s/%s" % (out.deviation.rule, mode), desc + ": " + out.deviation.desc, sim=sim)
                    return res
                if out.kind == "abort":
                    res.violation("c02/aborted/%s/%s/%08x" % (mode, o.kind, out.code), desc + ": conforming download aborted with %08x" % out.code, sim=sim)
                    return res
                apply_download(o, payload)
                st = out.stats
                if (mode == "blk" and (st.get("retrans", 0) > 0 or st.get("blocks", 0) >= 2)) or (mode == "seg" and st.get("segments", 0) >= 2):
                    res.nt(mode, o.idx, o.sub, payload[:16], si, repr(opts))
                res.counters["blk_retrans"] += st.get("retrans", 0)
                res.counters["blk_blocks"] += st.get("blocks", 0)
                res.counters["seg_segments"] += st.get("segments", 0)
                if t == 0 and idx == 0:
                    res.sample({"case": desc, "outcome": repr(out), "stats": st})
            bad = world.check_dump(sim)
            if bad:
                key = "c02/storage/%s/%s" % ("+".join(sorted(set(c[3] for c in cases))), "+".join(sorted(set(c[1].kind for c in cases))))
                res.violation(key, "after confirmed download(s) %s storage differs: %r" % (
                    [(c[3], "%04x:%02x" % (c[1].idx, c[1].sub), len(c[2]), c[4], c[5]) for c in cases], bad[:3]),
                    sim=sim, expected=[b[1] for b in bad[:3]], observed=[b[2] for b in bad[:3]])
                return res
    except S.SimDied as e:
        res.violation("c02/crash/" + e.signature, "executor died: " + e.signature, sim=sim, detail=e.detail[-2000:])
    finally:
        sim.close()
    return res


# ------------------------------------------------------------------- C03
def choose_upload(rng, world, systematic=None):
    o = world.pick(lambda o: o.readable and o.kind in ("int", "str", "dom"))
    mode = rng.choice(["normal", "blk", "blk", "blk"])
    return o, mode


def make_upload(rng, o, mode, opts):
    if mode == "normal":
        return RC.run(RC.upload, o.idx, o.sub)
    bs = opts["blksize"]
    ackmode = opts.get("ack", "all")
    memo = {}

    def ack(b, sent):
        if ackmode == "all":
            return sent
        if ackmode == "fixed":
            return min(sent, opts["k"]) if b % 2 == 0 else sent
        if b not in memo:
            x = rng.random()
            memo[b] = sent if x < 0.5 else (0 if x < 0.6 and b % 4 != 3 else rng.randint(0, sent))
            if memo[b] == 0 and b > 0 and memo.get(b - 1) == 0:
                memo[b] = sent          # make progress
        return memo[b]

    def nbs(b):
        if opts.get("vary"):
            return rng.choice([1, 2, 3, 7, 20, 64, 127, bs])
        return bs
    return RC.run(RC.upload_block, o.idx, o.sub, bs, ack_fn=ack, next_blksize_fn=nbs, crc=opts.get("crc", False), lost_fn=opts.get("lost_fn"))


HUGE_SIZES = [65535, 65536, 65537, 65536 + 889, 65536 + 21, 65536 + 7, 2 * 65536 + 889, 70000]


def c03_huge_work(item, ctx):
    """Objects beyond 2^16 bytes: block uploads whose remaining length passes through multiples of 65536, and a segmented one."""
    res = F.Res()
    kind, idx, n = item
    rng = random.Random(F.seed_for(ctx["seed"], "C03", kind, idx))
    sizes = [HUGE_SIZES[(idx * 2 + k) % len(HUGE_SIZES)] for k in range(2)]
    world = World(rng, ns=1, small=True, huge=sizes)
    sim = S.Sim(ctx["exes"]["asan"], world.cfg)
    run = Runner(res, sim, world, "C03")
    try:
        for i, sz in enumerate(sizes):
            o = world.om[(0x2123, i)]
            cases = [("blk", {"blksize": 127, "ack": "all"}), ("blk", {"blksize": 3, "ack": "all", "vary": False}), ("blk", {"blksize": rng.choice([1, 7, 64, 126]), "ack": "rand", "vary": True})]
            if ctx["tier"] != "quick" or idx % 4 == 0:
                cases.append(("normal", {}))
            for mode, opts in cases:
                if mode == "blk" and opts.get("blksize") == 3:
                    # a first block of 3 segments, full blocks from then on: the remainder after the first block is size - 21
                    coro = RC.run(RC.upload_block, o.idx, o.sub, 3, ack_fn=lambda b, sent: sent, next_blksize_fn=lambda b: 127, crc=False, lost_fn=None)
                else:
                    coro = make_upload(rng, o, mode, opts)
                out = run.transfer(0, coro)
                res.evals += 1
                res.counters["uploads_beyond_64k"] += 1
                desc = "%s upload of %04x:%02x (domain of %d bytes) %s" % (mode, o.idx, o.sub, sz, opts)
                if out.kind == "deviation":
                    res.violation("c03/response/%s/%s" % (out.deviation.rule, mode), desc + ": " + out.deviation.desc, sim=sim); return res
                if out.kind == "abort":
                    res.violation("c03/aborted/%s/dom/%08x" % (mode, out.code), desc + ": aborted with %08x" % out.code, sim=sim); return res
                if out.size != sz or out.data != o.bytes():
                    first_ = next((j for j in range(min(sz, len(out.data))) if o.data[j] != out.data[j]), min(sz, len(out.data)))
                    res.violation("c03/data/%s/dom/beyond-64k" % mode, desc + ": announced %d bytes, delivered %d, first difference at offset %d" % (out.size, len(out.data), first_), sim=sim); return res
                res.nt("huge", sz, mode, repr(opts))
        bad = world.check_dump(sim)
        if bad:
            res.violation("c03/storage-changed/beyond-64k", "upload changed object storage: %r" % [b[0] for b in bad[:3]], sim=sim)
    except S.SimDied as e:
        res.violation("c03/crash/" + e.signature, "executor died: " + e.signature, sim=sim, detail=e.detail[-2000:])
    finally:
        sim.close()
    return res


def c03_work(item, ctx):
    if item[0] == "two":
        return c03_two_work(item, ctx)
    if item[0] == "huge":
        return c03_huge_work(item, ctx)
    res = F.Res()
    kind, idx, n = item
    exe = ctx["exes"]["asan"]
    rng = random.Random(F.seed_for(ctx["seed"], "C03", kind, idx))
    world = World(rng, ns=1, small=(kind in ("sys", "enum")), enum64=(kind == "enum"))
    sim = S.Sim(exe, world.cfg)
    run = Runner(res, sim, world, "C03")
    try:
        objs = [o for o in world.om.values() if o.readable and o.kind in ("int", "str", "dom")]
        cases = None
        if kind == "enum":
            # complete enumeration: every domain size 1..64 x requested block size 1..9 x every single-acknowledge position k (0..segments sent)
            cases = []
            for o in sorted((x for x in objs if x.idx == 0x2120), key=lambda x: x.sub):
                if o.size() % 4 != idx % 4:
                    continue
                nseg = (o.size() + 6) // 7
                for bs in range(1, 10):
                    for k in range(0, min(bs, nseg) + 1):
                        cases.append((o, bs, k))
            n = len(cases)
            res.extra["c03_enumerated_cases"] = n
        for t in range(n):
            if kind == "enum":
                o, bs, k = cases[t]
                mode = "blk"
                opts = {"blksize": bs, "ack": "fixed", "k": k, "vary": False}
            elif kind == "sys":
                # systematic: object size <= 64, blksize <= 9, every single-ack position
                small = sorted([o for o in objs if o.size() <= 100], key=lambda o: (o.idx, o.sub))
                o = small[(idx + t) % len(small)]
                nseg = (o.size() + 6) // 7
                bs = 1 + (idx // len(small) + t) % 9
                k = (idx // 7 + t // 3) % (min(bs, nseg) + 1)
                mode = "blk"
                opts = {"blksize": bs, "ack": "fixed", "k": k, "vary": t % 5 == 4}
            else:
                o = rng.choice(objs)
                mode = rng.choice(["normal", "blk", "blk", "blk"])
                opts = {"blksize": rng.choice([1, 2, 3, 4, 7, 8, 20, 63, 64, 126, 127, rng.randint(1, 127)]),
                        "ack": rng.choice(["all", "rand", "rand"]), "vary": rng.random() < 0.4, "crc": rng.random() < 0.2}
            reps = 1 if kind == "enum" else rng.choice([1, 1, 2, 3])
            if kind != "enum" and rng.random() < 0.15:
                # an upload does not start from a virgin server: a conforming download (any mode, any number of segments) went before
                wo, payload, dmode, size_ind, dopts = choose_download(rng, world, big=False)
                dout = run.transfer(0, make_download(rng, wo, payload, dmode, size_ind, dopts))
                if dout.kind != "ok":
                    res.violation("c03/preceding-download", "conforming %s download of %d bytes to %04x:%02x before the upload: %s" % (
                        dmode, len(payload), wo.idx, wo.sub, dout.deviation.desc if dout.kind == "deviation" else "abort %08x" % dout.code), sim=sim)
                    return res
                apply_download(wo, payload)
                res.counters["uploads_after_a_download"] += 1
            if kind != "enum" and rng.random() < 0.12:
                # ... or a transfer the server itself had to end with an abort (wrong toggle in the second segment of a download to an
                # integer, overrun, ...): nothing of it may show up in the upload
                lines = server_abort_ending(rng, world, 0)
                evs_l = sim.batch(lines)
                last = [d for (t_, cid, dlc, d, f) in S.txs(evs_l[-1]) if cid == world.resp_id(0)]
                if len(last) == 1 and last[0][0] == 0x80:
                    res.counters["uploads_after_a_server_abort"] += 1
                else:
                    run.step(0, RC.abort_frame(0, 0, 0x08000000))
                from m_sdo2 import sync_model
                sync_model(world, sim)
            for rep in range(reps):
                if mode == "blk" and kind != "enum" and rng.random() < 0.12:
                    # the CAN driver refuses one data segment of the first block (transmit queue full): for the client this is a lost
                    # segment - it acknowledges what it got in sequence and the server has to send the rest again
                    nfirst = max(1, min(opts["blksize"], (o.size() + 6) // 7))
                    kf = 1 + rng.choice([1, nfirst, nfirst, rng.randint(1, nfirst)])
                    sim.cmd("fault cansend %d" % kf)
                    opts = dict(opts, lost_fn=lambda: run.last_failed)
                    res.counters["uploads_with_refused_segment"] += 1
                out = run.transfer(0, make_upload(rng, o, mode, opts))
                opts = {k_: v_ for k_, v_ in opts.items() if k_ != "lost_fn"}
                sim.cmd("fault cansend 0")
                res.evals += 1
                desc = "%s upload of %04x:%02x (%s, %d bytes) %s, read #%d" % (mode, o.idx, o.sub, o.kind, o.size(), opts if mode == "blk" else "", rep + 1)
                res.counters["up_" + mode] += 1
                if out.kind == "deviation":
                    res.violation("c03/response/%s/%s" % (out.deviation.rule, mode), desc + ": " + out.deviation.desc, sim=sim)
                    return res
                if out.kind == "abort":
                    res.violation("c03/aborted/%s/%s/%08x" % (mode, o.kind, out.code), desc + ": aborted with %08x" % out.code, sim=sim)
                    return res
                want = o.bytes()
                if out.size != len(want):
                    res.violation("c03/size/%s/%s" % (mode, o.kind), desc + ": announced size %d, object has %d bytes" % (out.size, len(want)), sim=sim)
                    return res
                if out.data != want:
                    first = next((i for i in range(min(len(want), len(out.data))) if want[i] != out.data[i]), min(len(want), len(out.data)))
                    res.violation("c03/data/%s/%s/%s" % (mode, o.kind, "reread" if rep else "first"),
                                  desc + ": assembled bytes differ from the object at offset %d" % first, sim=sim,
                                  expected=want[max(0, first - 8):first + 24].hex(), observed=out.data[max(0, first - 8):first + 24].hex())
                    return res
                st = out.stats
                res.counters["partial_acks"] += st.get("partial", 0)
                res.counters["blocks"] += st.get("blocks", 0)
                res.counters["segments"] += st.get("segments", 0)
                if st.get("partial", 0) > 0 or st.get("segments", 0) >= 2 or st.get("blocks", 0) >= 2:
                    res.nt(mode, o.idx, o.sub, repr(opts), rep, st.get("partial", 0))
                if t == 0 and idx == 0 and rep == 0:
                    res.sample({"case": desc, "outcome": repr(out), "stats": st})
            bad = world.check_dump(sim)
            if bad:
                res.violation("c03/storage-changed/%s" % mode, "upload changed object storage: %r" % bad[:3], sim=sim)
                return res
    except S.SimDied as e:
        res.violation("c03/crash/" + e.signature, "executor died: " + e.signature, sim=sim, detail=e.detail[-2000:])
    finally:
        sim.close()
    return res


def server_abort_ending(rng, world, sv):
    """A short dialogue the server itself has to end with an abort: afterwards no transfer is open, whatever it had buffered."""
    rid = world.req_id(sv)
    def rx(b):
        return "rx %x 8 %s" % (rid, (b + bytes(8))[:8].hex())
    ints = [o for o in world.om.values() if o.kind == "int" and o.writable and o.width in (2, 4)]
    doms = [o for o in world.om.values() if o.kind == "dom" and o.writable and 8 <= o.size() <= 100]
    rdoms = [o for o in world.om.values() if o.kind in ("dom", "str") and o.readable and o.size() > 14]
    k = rng.randrange(6)
    if k == 0:
        # segmented download to a basic type in two segments, the second one repeats the toggle bit
        o = rng.choice(ints); m = RC.mux(o.idx, o.sub)
        ini = bytes([0x21]) + m + o.width.to_bytes(4, "little") if rng.random() < 0.5 else bytes([0x20]) + m + bytes(4)
        n1 = rng.randint(1, o.width - 1)
        return [rx(ini), rx(bytes([(7 - n1) << 1]) + gen.rand_bytes(rng, n1)), rx(bytes([((7 - (o.width - n1)) << 1) | 1]) + gen.rand_bytes(rng, o.width - n1))]
    if k == 1:
        # ... or brings more bytes than the object can take
        o = rng.choice(ints); m = RC.mux(o.idx, o.sub)
        n1 = rng.randint(1, o.width - 1)
        return [rx(bytes([0x20]) + m + bytes(4)), rx(bytes([(7 - n1) << 1]) + gen.rand_bytes(rng, n1)), rx(bytes([0x10 | (rng.choice([0, 1]))]) + gen.rand_bytes(rng, 7))]
    if k == 2:
        # segmented upload, wrong toggle at the second segment
        o = rng.choice(rdoms); m = RC.mux(o.idx, o.sub)
        return [rx(bytes([0x40]) + m), rx(bytes([0x60])), rx(bytes([0x60]))]
    if k == 3:
        # block download whose last segment overruns the object
        o = rng.choice(doms); m = RC.mux(o.idx, o.sub)
        extra = o.size() + rng.choice([1, 3, 4])
        nseg = (extra + 6) // 7
        lines = [rx(bytes([0xC0]) + m)]
        for q in range(nseg):
            lines.append(rx(bytes([(q + 1) | (0x80 if q == nseg - 1 else 0)]) + gen.rand_bytes(rng, 7)))
        lines.append(rx(bytes([0xC1 | ((7 * nseg - extra) << 2)])))
        return lines
    if k == 4:
        return [rx(bytes([0x23]) + RC.mux(0x1000, 0) + gen.rand_bytes(rng, 4))]           # write to a read-only object
    return [rx(bytes([0x40]) + RC.mux(0x5FFF, 0))]                                        # unknown object


def c03_two_work(item, ctx):
    """Two SDO servers (CO_SSDO_N = 2): an upload on one server interleaved step by step with an upload or a download on the other
    (different objects: the shared transfer position of one object is the recorded finding of C02)."""
    res = F.Res()
    kind, idx, n = item
    rng = random.Random(F.seed_for(ctx["seed"], "C03", kind, idx))
    world = World(rng, ns=2)
    sim = S.Sim(ctx["exes"]["asan2"], world.cfg)
    run = Runner(res, sim, world, "C03")
    try:
        objs = [o for o in world.om.values() if o.readable and o.kind in ("int", "str", "dom")]
        big = [o for o in objs if o.size() > 127] or objs
        for t in range(n):
            def upl(o):
                mode = rng.choice(["normal", "blk", "blk", "blk"])
                opts = {"blksize": rng.choice([1, 3, 7, 19, 20, 64, 127, rng.randint(1, 127)]), "ack": rng.choice(["all", "rand", "rand"]),
                        "vary": rng.random() < 0.4, "crc": rng.random() < 0.2}
                return (o, mode, opts)
            a = upl(rng.choice(big if rng.random() < 0.7 else objs))
            s0 = rng.randrange(2)
            coros = [(s0, make_upload(rng, *a))]
            b = dl = None
            if rng.random() < 0.6:
                b = upl(rng.choice(objs))
                while b[0] is a[0]:
                    b = upl(rng.choice(objs))
                coros.append((1 - s0, make_upload(rng, *b)))
            else:
                dl = choose_download(rng, world)
                while dl[0] is a[0]:
                    dl = choose_download(rng, world)
                coros.append((1 - s0, make_download(rng, *dl)))
            outs = run.interleave(coros)
            res.evals += 1
            for (srv, case) in ((s0, a), (1 - s0, b)):
                if case is None:
                    continue
                o, mode, opts = case
                out = outs[srv]
                desc = "%s upload of %04x:%02x (%s, %d bytes) %s on server %d, interleaved with %s on server %d" % (
                    mode, o.idx, o.sub, o.kind, o.size(), opts if mode == "blk" else "", srv, "a download" if (dl and case is a) else "an upload", 1 - srv)
                res.counters["up_" + mode] += 1
                res.counters["uploads_interleaved_with_other_server"] += 1
                if out.kind == "deviation":
                    res.violation("c03/response/%s/%s" % (out.deviation.rule, mode), desc + ": " + out.deviation.desc, sim=sim); return res
                if out.kind == "abort":
                    res.violation("c03/aborted/%s/%s/%08x" % (mode, o.kind, out.code), desc + ": aborted with %08x" % out.code, sim=sim); return res
                want = o.bytes()
                if out.size != len(want):
                    res.violation("c03/size/%s/%s" % (mode, o.kind), desc + ": announced size %d, object has %d bytes" % (out.size, len(want)), sim=sim); return res
                if out.data != want:
                    first = next((i for i in range(min(len(want), len(out.data))) if want[i] != out.data[i]), min(len(want), len(out.data)))
                    res.violation("c03/data/%s/%s/two-servers" % (mode, o.kind), desc + ": assembled bytes differ from the object at offset %d" % first, sim=sim,
                                  expected=want[max(0, first - 8):first + 24].hex(), observed=out.data[max(0, first - 8):first + 24].hex()); return res
                st = out.stats
                res.counters["partial_acks"] += st.get("partial", 0)
                if st.get("partial", 0) > 0 or st.get("segments", 0) >= 2 or st.get("blocks", 0) >= 2:
                    res.nt("two", mode, o.idx, o.sub, repr(opts), srv, st.get("partial", 0))
            if dl:
                out = outs[1 - s0]
                if out.kind != "ok":
                    res.violation("c03/two-servers/download", "conforming %s download of %d bytes to %04x:%02x on server %d beside an upload on server %d: %s" % (
                        dl[2], len(dl[1]), dl[0].idx, dl[0].sub, 1 - s0, s0, out.deviation.desc if out.kind == "deviation" else "abort %08x" % out.code), sim=sim); return res
                apply_download(dl[0], dl[1])
            bad = world.check_dump(sim)
            if bad:
                res.violation("c03/storage-changed/two-servers", "interleaved transfers left storage different from the model: %r" % bad[:3], sim=sim); return res
    except S.SimDied as e:
        res.violation("c03/crash/" + e.signature, "executor died: " + e.signature, sim=sim, detail=e.detail[-2000:])
    finally:
        sim.close()
    return res


# ------------------------------------------------------------ property glue
def _selftest_common(ctx):
    # the reference client must flag a wrong toggle, a wrong ackseq and a short upload
    def drive(coro, answers):
        try:
            next(coro)
            for a in answers:
                coro.send(a)
        except StopIteration as e:
            return e.value
        return None
    o = drive(RC.run(RC.upload, 0x2000, 0), [[bytes([0x41, 0, 0x20, 0, 14, 0, 0, 0])], [bytes([0x10, 1, 2, 3, 4, 5, 6, 7])]])
    assert o.kind == "deviation" and o.deviation.rule == "up-seg-toggle", o
    o = drive(RC.run(RC.download_block, 0x2000, 0, bytes(20)), [[bytes([0xA0, 0, 0x20, 0, 127, 0, 0, 0])], [], [], [bytes([0xA2, 2, 127, 0, 0, 0, 0, 0])]])
    assert o.kind == "deviation" and o.deviation.rule == "blk-down-ackseq", o
    o = drive(RC.run(RC.upload, 0x2000, 0), [[bytes([0x41, 0, 0x20, 0, 14, 0, 0, 0])], [bytes([0x00, 1, 2, 3, 4, 5, 6, 7])], [bytes([0x1D, 1, 0, 0, 0, 0, 0, 0])]])
    assert o.kind == "deviation" and o.deviation.rule == "up-seg-size-mismatch", o
    o = drive(RC.run(RC.download_expedited, 0x2000, 0, b"\1\2\3\4"), [[bytes([0x60, 0, 0x20, 1, 0, 0, 0, 0])]])
    assert o.kind == "deviation", o
    w = World(random.Random(1))
    k = next(iter(w.om))
    w.om[k].val ^= 1 if w.om[k].kind == "int" else 0


def for_property(prop):
    m = types.SimpleNamespace()
    m.__name__ = "m_sdo"
    m.PROP, m.LEVEL = prop, LEVEL
    m.selftest = _selftest_common
    m.replay = lambda case, ctx: F.replay_log(case, ctx)
    if prop == "C02":
        m.VARIANTS = ["asan", "asan2"]
        m.RULE = ("conforming downloads generated by a CiA 301 reference client over object kind x payload x mode x size indication x "
                  "last-segment fill x lost-segment pattern, alone, interleaved with a second reference client on server 2, under hostile traffic on server 2 and while the application switches server 2 off and on (CO_SSDO_N=2); whole-dictionary "
                  "storage compared after every transfer; non-trivial = confirmed transfer with >= 2 segments, or >= 2 blocks or >= 1 retransmitted block")
        m.ASSUMPTIONS = ["the final segment of every block arrives (a client whose block end is lost times out and aborts)",
                         "fixed-size objects: payload length == object width; a payload longer than a domain must end in an abort (how much of it was written before is not constrained)"]
        m.work = c02_work

        def plan(tier, seed):
            q = tier == "quick"
            items = [("one", i, 25 if q else 60) for i in range(48 if q else 2800)]
            items += [("two", i, 12 if q else 30) for i in range(24 if q else 1200)]
            items += [("twoh", i, 12 if q else 30) for i in range(16 if q else 800)]
            items += [("twoc", i, 12 if q else 30) for i in range(12 if q else 400)]
            items += [("sizes", i, 40 if q else 250) for i in range(16 if q else 32)]
            items += [("shared", 0, 1)]
            return items
        m.plan = plan

        def finish(total, tier):
            c = total.counters
            p = []
            if c["blk_retrans"] < 5:
                p.append("fewer than 5 retransmitted blocks observed")
            if c["dl_exp"] < 10 or c["dl_seg"] < 10 or c["dl_blk"] < 10:
                p.append("a transfer mode was hardly exercised: %r" % dict(c))
            return p
        m.finish = finish
    elif prop == "C03":
        m.VARIANTS = ["asan", "asan2"]
        m.RULE = ("uploads of every readable object (integers, strings 1..1000, domains 1..4000) by the reference client: normal "
                  "(expedited/segmented) and block with requested block size 1..127, per-block acknowledge of any prefix (complete enumeration "
                  "of domain sizes 1..64 x blksize 1..9 x every single-acknowledge position; systematic rotation for objects <= 100 bytes; random otherwise), block size changed between blocks, "
                  "each object read up to 3 times in a row; with two servers (CO_SSDO_N=2) an upload on one interleaved step by step with an upload or download of another object on the other; non-trivial = >= 1 partial acknowledge or >= 2 segments/blocks")
        m.ASSUMPTIONS = ["zero-length strings are not uploaded (CiA 301 cannot express them in an expedited answer)",
                         "pst = 0 (no protocol switch requested)", "a client never acknowledges 0 segments twice in a row (progress)"]
        m.work = c03_work

        def plan(tier, seed):
            q = tier == "quick"
            items = [("rand", i, 20 if q else 60) for i in range(64 if q else 4800)]
            items += [("sys", i, 60 if q else 300) for i in range(32 if q else 2400)]
            items += [("enum", i, 0) for i in range(4)]
            items += [("two", i, 15 if q else 40) for i in range(32 if q else 1600)]
            items += [("huge", i, 0) for i in range(4 if q else 16)]
            return items
        m.plan = plan

        def finish(total, tier):
            p = []
            if total.counters["partial_acks"] < 20:
                p.append("fewer than 20 partial acknowledges observed")
            if total.counters["uploads_interleaved_with_other_server"] < 300:
                p.append("only %d uploads interleaved with traffic on the second server" % total.counters["uploads_interleaved_with_other_server"])
            return p
        m.finish = finish
    else:
        import m_sdo2
        m_sdo2.configure(m, prop)
    return m
