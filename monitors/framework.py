"""Common check driver: build, fan out work items, collect verdicts, known
findings, replay files, evidence."""
import os, sys, json, time, shutil, hashlib, traceback, atexit, signal
import multiprocessing as mp
from collections import Counter

import build as B
import sim as S

VERIF = B.VERIF
KNOWN_FILE = os.path.join(VERIF, "known_findings.txt")
# runs against a scratch copy (mutation campaign) must not touch the committed evidence
# VERIF_COVDIR=<dir> is a diagnostic mode (not a check): every variant is built with gcov instrumentation into <dir>, kept afterwards
COVDIR = os.environ.get("VERIF_COVDIR")
# VERIF_SAN=msan is a second diagnostic mode: the executor variants of the check are built with that sanitizer instead of their own
# (the whole workload of any check under MemorySanitizer); evidence goes to .build/alt like every run that is not the registered check
FORCE_SAN = os.environ.get("VERIF_SAN")
_ALT = os.path.realpath(B.REPO) != "/repo" or bool(COVDIR) or bool(FORCE_SAN)
EVDIR = os.path.join(VERIF, ".build", "alt", "evidence") if _ALT else os.path.join(VERIF, "evidence")
RPDIR = os.path.join(VERIF, ".build", "alt", "replays") if _ALT else os.path.join(VERIF, "replays")


def seed_for(*parts):
    h = hashlib.sha256(("/".join(str(p) for p in parts)).encode()).digest()
    return int.from_bytes(h[:8], "little")


class Res:
    """Result of one work item (picklable)."""

    def __init__(self):
        self.evals = 0
        self.nontrivial = set()      # hashes of distinct non-trivial cases
        self.samples = []
        self.counters = Counter()
        self.states = set()
        self.violations = []         # dicts: key, desc, log, expected, observed
        self.inconclusive = []
        self.extra = {}
        self.nt_count = 0             # distinct non-trivial cases counted by an engine itself (disjoint from .nontrivial)

    def nt(self, *desc):
        self.nontrivial.add(hashlib.md5(repr(desc).encode()).hexdigest()[:12])

    def violation(self, key, desc, sim=None, log=None, expected=None, observed=None, detail=None):
        if len(self.violations) >= 40:
            self.counters["violations_dropped"] += 1
            return
        lg = log if log is not None else (list(sim.log) if sim is not None else [])
        self.violations.append({"key": key, "desc": desc, "log": lg[-3000:], "expected": expected,
                                "observed": observed, "detail": detail})

    def sample(self, s, limit=3):
        if len(self.samples) < limit:
            self.samples.append(s)


def load_known():
    known, fixed = {}, []
    if os.path.exists(KNOWN_FILE):
        for l in open(KNOWN_FILE):
            l = l.strip()
            if l.startswith("known:"):
                parts = l.split(None, 3)
                prop = parts[1].split("=", 1)[1]
                key = parts[2].split("=", 1)[1]
                known[(prop, key)] = parts[3] if len(parts) > 3 else ""
            elif l.startswith("fixed:"):
                fixed.append(l)
    return known, fixed


_WORK = None


def _call(args):
    fn, item, ctx = args
    try:
        signal.signal(signal.SIGINT, signal.SIG_IGN)
        return fn(item, ctx)
    except S.SimDied as e:          # a crash a module did not catch itself
        r = Res()
        r.violation("crash/uncaught/" + e.signature, "executor died: " + e.signature, detail=e.detail[-3000:])
        return r
    except Exception:
        r = Res()
        r.inconclusive.append("worker exception: " + traceback.format_exc()[-3000:])
        return r


def run_items(fn, items, ctx, jobs):
    if jobs <= 1 or len(items) <= 1:
        return [_call((fn, it, ctx)) for it in items]
    with mp.Pool(jobs) as pool:
        return list(pool.imap_unordered(_call, [(fn, it, ctx) for it in items], chunksize=1))


def main(module, argv):
    """module provides: PROP, LEVEL, RULE, ASSUMPTIONS, VARIANTS (list of (variant, harness tuple, exe name, kwargs)),
    plan(tier, seed) -> items, work(item, ctx) -> Res, selftest() -> None (raises on failure),
    optional finish(total, tier) for minimum-observation thresholds."""
    prop = module.PROP
    tier = os.environ.get("VERIF_TIER", "quick")
    replay = None
    a = list(argv)
    while a:
        x = a.pop(0)
        if x == "--tier":
            tier = a.pop(0)
        elif x == "--replay":
            replay = a.pop(0)
    seed = int(os.environ.get("VERIF_SEED", "1"))
    jobs = int(os.environ.get("VERIF_JOBS", "16"))
    t0 = time.time()
    bdir = os.path.join(VERIF, ".build", "%s.%s.%d" % (prop, tier, os.getpid()))

    def cleanup():
        shutil.rmtree(bdir, ignore_errors=True)
    atexit.register(cleanup)

    try:
        exes = {}
        for v in module.VARIANTS:
            if isinstance(v, str):
                v = (v, ("cosim.c",), "cosim", {})
            variant, harness, exe, kw = v
            if kw.get("thorough_only") and tier != "thorough":
                continue
            kw = {k: x for k, x in kw.items() if k != "thorough_only"}
            if FORCE_SAN and exe == "cosim" and variant in ("asan", "asan2", "casan", "plain", "plain2", "ubsan"):
                exes[variant] = B.build(FORCE_SAN, os.path.join(bdir, "as-" + variant), harness=harness, exe=exe, extra_defs=B.VARIANTS[variant][2], **kw)
                continue
            if COVDIR:
                kw = {k: x for k, x in kw.items() if k != "rename_text"}
                exes[variant + ":" + exe if exe != "cosim" else variant] = B.build("cov", os.path.join(COVDIR, prop + "-" + variant), harness=harness, exe=exe,
                                                                                   extra_defs=B.VARIANTS[variant][2], **kw)
                continue
            exes[variant + ":" + exe if exe != "cosim" else variant] = B.build(variant, bdir, harness=harness, exe=exe, **kw)
    except B.BuildError as e:
        print("INCONCLUSIVE property=%s build failed\n%s" % (prop, e))
        return 2
    ctx = {"exes": exes, "tier": tier, "seed": seed, "bdir": bdir}

    if replay:
        return module.replay(json.load(open(replay)), ctx)

    try:
        module.selftest(ctx)
    except Exception:
        print("INCONCLUSIVE property=%s monitor self-test failed\n%s" % (prop, traceback.format_exc()))
        return 2

    items = module.plan(tier, seed)
    results = run_items(module.work, items, ctx, jobs)

    total = Res()
    for r in results:
        total.evals += r.evals
        total.nt_count += r.nt_count
        total.nontrivial |= r.nontrivial
        total.counters.update(r.counters)
        total.states |= r.states
        total.violations += r.violations
        total.inconclusive += r.inconclusive
        for s in r.samples:
            total.sample(s, 6)
        for k, v in r.extra.items():
            total.extra.setdefault(k, []).append(v)

    known, fixed = load_known()
    os.makedirs(RPDIR, exist_ok=True)
    seen_known, new_viol, seen_keys = {}, [], set()
    for v in total.violations:
        k = (prop, v["key"])
        if k in known:
            seen_known[v["key"]] = known[k]
            continue
        if v["key"] in seen_keys:
            continue
        seen_keys.add(v["key"])
        new_viol.append(v)

    rc = 0
    for key, what in sorted(seen_known.items()):
        print("KNOWN-FINDING: property=%s %s [%s]" % (prop, what, key))
    for v in new_viol:
        name = "%s_%s.json" % (prop, hashlib.md5(v["key"].encode()).hexdigest()[:10])
        path = os.path.join(RPDIR, name)
        json.dump({"property": prop, "tier": tier, "seed": seed, "module": module.__name__, **v}, open(path, "w"), indent=1)
        print("violation key=%s :: %s" % (v["key"], v["desc"]))
        print("VIOLATION property=%s replay=%s" % (prop, path))
        rc = 1

    problems = list(total.inconclusive)
    if hasattr(module, "finish"):
        problems += module.finish(total, tier) or []
    if len(total.nontrivial) + total.nt_count < 2:
        problems.append("fewer than 2 distinct non-trivial cases observed")

    cov = {
        "evaluations": total.evals,
        "distinct_nontrivial": len(total.nontrivial) + total.nt_count,
        "rule": module.RULE,
        "samples": total.samples[:6],
        "events": dict(total.counters),
        "distinct_states_observed": len(total.states),
        "work_items": len(items),
        "builds": sorted(exes.keys()),
        "known_findings_seen": sorted(seen_known.keys()),
    }
    for k, v in total.extra.items():
        cov[k] = v[:8]
    ev = {
        "property_id": prop, "tier": tier, "seed": seed, "level": module.LEVEL,
        "coverage": cov, "assumptions": module.ASSUMPTIONS,
        "wall_s": round(time.time() - t0, 2), "violations": len(new_viol),
    }
    if problems:
        ev["coverage"]["inconclusive"] = problems[:10]
    os.makedirs(EVDIR, exist_ok=True)
    json.dump(ev, open(os.path.join(EVDIR, prop + ".json"), "w"), indent=1)

    print("%s %s seed=%d: %d evaluations, %d distinct non-trivial, %d violations, %d known, %.1fs" % (
        prop, tier, seed, total.evals, len(total.nontrivial) + total.nt_count, len(new_viol), len(seen_known), time.time() - t0))
    if rc == 0 and problems:
        for p in problems[:10]:
            print("INCONCLUSIVE property=%s %s" % (prop, p))
        return 2
    return rc


def replay_log(case, ctx, variant=None):
    """Default replay: re-execute the recorded command log on a fresh executor and show what happens."""
    exes = ctx["exes"]
    exe = exes.get(case.get("variant") or variant or sorted(exes)[0]) or exes[sorted(exes)[0]]
    import subprocess
    e = dict(os.environ)
    e.update(S.ASAN_ENV)
    p = subprocess.run([exe], input="\n".join(case["log"]) + "\nquit\n", text=True, stdout=subprocess.PIPE,
                       stderr=subprocess.PIPE, env=e, timeout=300)
    print("replaying %d commands of %s (key %s)" % (len(case["log"]), case.get("property"), case.get("key")))
    tail = p.stdout.splitlines()[-25:]
    print("\n".join(tail))
    if p.returncode != 0:
        print("executor died:", S.parse_crash(p.stderr, p.returncode))
        print(p.stderr[-3000:])
    print("expected:", case.get("expected"))
    print("observed:", case.get("observed"))
    print("VIOLATION property=%s replay=%s" % (case.get("property"), "(this file)"))
    return 1
