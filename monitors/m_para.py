"""C17 - parameter store / restore: exact, survives restarts and NVM faults (fault enumeration)."""
import random, zlib
import framework as F
import sim as S
import gen
from sim import Obj, Config, var, W, R, P, A, N, D, RW

PROP = "C17"
LEVEL = "fault_enumeration"
RULE = ("parameter-group layouts (1..4 groups, sizes 1..64, reset types, enable flags, with/without defaults) x RAM images x sequences of <= 12 "
        "requests (store/restore with right and wrong signatures to every sub-index, application changes of the RAM parameters, NMT reset "
        "node / communication); for each sequence: (a) the fault-free run, (b) a restart (power cycle) inserted after EVERY request prefix, "
        "(c) EVERY NVM driver call of the run made to return short (by 1 byte and by the whole block), reads and writes separately; after "
        "every step RAM blocks, NVM image, SDO verdict, node error and COParaDefault calls are compared with the reference model; "
        "non-trivial = execution with >= 1 successful store and (a restart/reset reload or an injected fault); distinct by (layout, script, fault)")
ASSUMPTIONS = ["torn writes inside one request are outside the property (faults are short counts reported by the driver)",
               "a store/restore addressed to a group that is not enabled may be accepted without effect or refused",
               "the abort code for a wrong signature / failed NVM access is not constrained (must be an abort)",
               "after a surfaced short read, which of the remaining groups the failed reload still loads is not constrained"]
VARIANTS = ["asan", "lean"]

SAVE, LOAD = 0x65766173, 0x64616F6C


class Layout:
    def __init__(self, rng):
        self.nid = 1
        ng = rng.choice([1, 1, 2, 3, 4])
        self.groups = []
        off = rng.choice([0, 0, 3])
        for g in range(ng):
            size = rng.choice([1, 2, 4, 7, 16, 33, 64])
            self.groups.append({"off": off, "size": size, "type": rng.choice([1, 2]), "en": rng.random() < 0.8, "def": gen.rand_bytes(rng, size) if rng.random() < 0.7 else None,
                                "raminit": gen.rand_bytes(rng, size)})
            off += size + rng.choice([0, 0, 2])
        self.nvmsize = off + rng.choice([0, 4])
        self.nsub = ng if ng == 1 else ng + 1
        # a gap in the sub-indices of 1010h/1011h (legal): the group behind the missing sub-index has no entry and takes part in nothing
        self.gap = rng.randint(2, self.nsub - 1) if (ng >= 3 and rng.random() < 0.35) else None
        self.nvminit = gen.rand_bytes(rng, self.nvmsize)

    def subs(self):
        return [s_ for s_ in range(1, self.nsub + 1) if s_ != self.gap]

    def group_of(self, sub):
        if len(self.groups) == 1:
            return 0
        return 0 if sub == 1 else sub - 2

    def targets(self, sub):
        if len(self.groups) > 1 and sub == 1:
            return [g_ for g_ in range(len(self.groups)) if self.gap is None or g_ != self.gap - 2]
        return [self.group_of(sub)]

    def config(self):
        cfg = Config(nodeid=self.nid, freq=1000, tmrnum=8)
        gen.add_mandatory(cfg, hb=0, ssdo=1, ssdo_rw=False)
        for g, x in enumerate(self.groups):
            cfg.paras.append((g, x["off"], x["size"], x["type"], 1 if x["en"] else 0, x["def"] is not None, x["raminit"], x["def"]))
        cfg.add(var(0x1010, 0, D | R, 1, self.nsub, "parastore")); cfg.add(var(0x1011, 0, D | R, 1, self.nsub, "pararestore"))
        for s in self.subs():
            cfg.add(Obj(0x1010, s, RW, "parastore", "P", self.group_of(s)))
            cfg.add(Obj(0x1011, s, RW, "pararestore", "P", self.group_of(s)))
        cfg.nvm = (self.nvmsize, self.nvminit)
        cfg.finalize()
        return cfg


def hash_op(op):
    return zlib.crc32(repr(op[:3]).encode())


class PModel:
    def __init__(self, lay):
        self.lay = lay
        self.nvm = bytearray(lay.nvminit)
        self.ram = [bytearray(g["raminit"]) for g in lay.groups]
        self.calls = {"r": 0, "w": 0}
        self.fault = None            # (kind 'r'|'w', k, short)
        self.short_groups = set()    # groups whose reload was cut short by the driver: their RAM content is open
        self.fill = None             # byte the application writes to all parameter RAM inside the mode change callback for INITIALISING

    def _short(self, kind, size):
        self.calls[kind] += 1
        if self.fault and self.fault[0] == kind and self.fault[1] == self.calls[kind]:
            self.fault_hit = True
            return max(0, size - self.fault[2])
        return size

    def load(self, types):
        """init / reset reload; returns True if a read was short"""
        err = False
        lay = self.lay
        if self.fill is not None:
            # the application sets its factory defaults when it is told that the node initialises; the stored values go on top
            self.ram = [bytearray([self.fill]) * g["size"] for g in lay.groups]
        for t in types:
            for sub in lay.subs():
                g = lay.group_of(sub)
                x = lay.groups[g]
                if x["type"] == t:
                    n = self._short("r", x["size"])
                    self.ram[g][:n] = self.nvm[x["off"]:x["off"] + n]
                    if n != x["size"]:
                        err = True
                        self.short_groups.add(g)
        return err

    def restart(self):
        self.ram = [bytearray(g["raminit"]) for g in self.lay.groups]
        return self.load([1, 2])

    def store(self, sub):
        """-> 'ok' | 'abort' | 'open'"""
        lay = self.lay
        multi = len(lay.groups) > 1 and sub == 1
        verdict = "ok"
        for g in lay.targets(sub):
            x = lay.groups[g]
            if not x["en"]:
                if not multi:
                    verdict = "open"
                continue
            n = self._short("w", x["size"])
            self.nvm[x["off"]:x["off"] + n] = self.ram[g][:n]
            if n != x["size"]:
                return "abort"
        return verdict

    def restore(self, sub, fail_at=None):
        lay = self.lay
        multi = len(lay.groups) > 1 and sub == 1
        calls = []
        verdict = "ok"
        for g in lay.targets(sub):
            x = lay.groups[g]
            if not x["en"]:
                if not multi:
                    verdict = "open"
                continue
            calls.append(g)
            if x["def"] is not None:
                self.ram[g][:] = x["def"]
        return verdict, calls


def gen_script(rng, lay):
    ops = []
    for _ in range(rng.randint(3, 12)):
        x = rng.random()
        if x < 0.35:
            ops.append(("store", rng.choice(lay.subs()), SAVE))
        elif x < 0.45:
            ops.append(("store", rng.choice(lay.subs()), rng.choice([0, 1, SAVE ^ 1, SAVE ^ 0x01000000, SAVE >> 8, LOAD, 0x73617665])))
        elif x < 0.57:
            ops.append(("restore", rng.choice(lay.subs()), LOAD))
        elif x < 0.62:
            ops.append(("restore", rng.choice(lay.subs()), rng.choice([0, LOAD ^ 0x100, SAVE, 0x6C6F6164])))
        elif x < 0.85:
            g = rng.randrange(len(lay.groups))
            ops.append(("ramset", g, gen.rand_bytes(rng, lay.groups[g]["size"])))
        elif x < 0.93:
            ops.append(("reset", rng.choice([129, 130])))
        else:
            ops.append(("restart",))
        if rng.random() < 0.15 and ops[-1][0] in ("store", "restore"):
            ops.append(("partial", ops[-1][0], rng.choice(lay.subs()), rng.choice(["empty", "short"])))
    return ops


def execute(res, exe, lay, ops, fault, tag, sample=False):
    """Run one script (optionally with one injected NVM fault) in lockstep with the model. Returns (ok, model)."""
    cfg = lay.config()
    m = PModel(lay)
    m.fault = fault
    m.fault_hit = False
    sim = S.Sim(exe, cfg, init=False)
    if zlib.crc32(repr((tag, fault)).encode()) % 10 < 3:
        m.fill = 0x5A
        sim.p.stdin.write("ramfillcb 0x5A\n")
    script = []
    stores = reloads = 0

    def fail(key, msg, exp=None, obs=None):
        res.violation("c17/" + key, "layout %r, fault %r: %s | script: %s" % (
            [(g["off"], g["size"], g["type"], g["en"], g["def"] is not None) for g in lay.groups], fault, msg, "; ".join(script[-6:])),
            sim=sim, expected=exp, observed=obs)
        return False

    def compare_others(where):
        """A short read concerns one group: every other group of the reload still equals the stored image."""
        for g in range(len(lay.groups)):
            if g in m.short_groups:
                continue
            r = bytes.fromhex(sim.ret("ramdump %d" % g)[0].replace("-", ""))
            if r != bytes(m.ram[g]):
                return fail(where + "/other-group-not-reloaded", "the NVM read of group(s) %r was short; RAM block of group %d is %s, reference (stored image) %s" % (
                    sorted(m.short_groups), g, r.hex(), bytes(m.ram[g]).hex()), bytes(m.ram[g]).hex(), r.hex())
        return True

    def compare():
        nv = bytes.fromhex(sim.ret("nvmdump")[0].replace("-", ""))
        if nv != bytes(m.nvm):
            i = next(k for k in range(len(nv)) if nv[k] != m.nvm[k])
            return fail("nvm", "NVM image differs from the reference at offset %d: %s vs %s" % (i, nv[i:i + 8].hex(), bytes(m.nvm[i:i + 8]).hex()), bytes(m.nvm).hex(), nv.hex())
        for g in range(len(lay.groups)):
            r = bytes.fromhex(sim.ret("ramdump %d" % g)[0].replace("-", ""))
            if r != bytes(m.ram[g]):
                return fail("ram", "RAM block of group %d is %s, reference %s" % (g, r.hex(), bytes(m.ram[g]).hex()), bytes(m.ram[g]).hex(), r.hex())
        return True

    def arm():
        if fault:
            kind, k, short = fault
            left = k - m.calls[kind]
            if left >= 1:
                sim.cmd("fault %s %d %d" % ("nvmread" if kind == "r" else "nvmwrite", left, short))

    try:
        arm()
        evs = sim.cmd("init")
        err = m.load([1, 2])
        ge = int(sim.ret("geterr")[0])
        if err and ge == 0:
            fail("init/short-read-ignored", "short NVM read during initialisation but CONodeGetErr() == 0"); return False, m
        if not err and ge != 0:
            fail("init/error", "CONodeGetErr() = %d after a clean initialisation" % ge); return False, m
        if err:
            res.evals += 1; res.counters["faults_injected"] += 1; res.counters["short_reads_surfaced"] += 1
            return compare_others("init"), m
        sim.cmd("start")
        if not compare():
            return False, m
        for op in ops:
            script.append(repr(op[:3]) if op[0] != "ramset" else "ramset %d" % op[1])
            if op[0] in ("store", "restore"):
                _, sub, sig = op
                idx = 0x1010 if op[0] == "store" else 0x1011
                want_calls = []
                if op[0] == "store":
                    verdict = m.store(sub) if sig == SAVE else "abort"
                else:
                    if sig == LOAD:
                        verdict, want_calls = m.restore(sub)
                    else:
                        verdict = "abort"
                if (hash_op(op) & 3) == 0:
                    # the same request as a segmented transfer (initiate with size 4, one last segment with the four bytes)
                    rid = 0x600 + lay.nid
                    evs = sim.rx(rid, bytes([0x21, idx & 0xFF, idx >> 8, sub, 4, 0, 0, 0]))
                    r0 = [d for (t, cid, dlc, d, f) in S.txs(evs) if cid == 0x580 + lay.nid]
                    code = int.from_bytes(r0[0][4:8], "little") if (r0 and r0[0][0] == 0x80) else None
                    if code is None:
                        evs2 = sim.rx(rid, bytes([0x07]) + sig.to_bytes(4, "little") + bytes(3))
                        r1 = [d for (t, cid, dlc, d, f) in S.txs(evs2) if cid == 0x580 + lay.nid]
                        code = int.from_bytes(r1[0][4:8], "little") if (r1 and r1[0][0] == 0x80) else (None if r1 else "no answer")
                        evs = evs + evs2
                    sim.cmd("geterr")       # an aborted segmented transfer leaves an SDO error code in the node: not what the following steps look for
                    res.counters["segmented_requests"] += 1
                else:
                    code, evs = S.sdo_write(sim, lay.nid, idx, sub, sig, 4)
                got_calls = [int(c[1]) for c in S.cbs(evs, "paradef")]
                if verdict == "ok" and code is not None:
                    fail("verdict/%s-refused" % op[0], "valid %s request to sub %d answered %r" % (op[0], sub, code)); return False, m
                if verdict == "abort" and code is None:
                    fail("verdict/%s-accepted/%s" % (op[0], "signature" if sig not in (SAVE, LOAD) or (op[0] == "store") != (sig == SAVE) else "nvm-fault"),
                         "%s request to sub %d with value %08x confirmed, reference: abort" % (op[0], sub, sig)); return False, m
                if got_calls != want_calls:
                    fail("default-callback", "COParaDefault called for groups %r, reference %r" % (got_calls, want_calls)); return False, m
                if op[0] == "store" and verdict == "ok":
                    stores += 1
            elif op[0] == "partial":
                # segmented downloads that deliver less than the four signature bytes (nothing, or two bytes): they are no
                # store / restore request whatever the transfer buffer still holds from an earlier one - no NVM access, no default callback
                _, which, sub, variant = op
                idx = 0x1010 if which == "store" else 0x1011
                sb = (SAVE if which == "store" else LOAD).to_bytes(4, "little")
                rid = 0x600 + lay.nid
                fr = [bytes([0x21 if variant == "split" else 0x20, idx & 0xFF, idx >> 8, sub]) + ((4).to_bytes(4, "little") if variant == "split" else bytes(4))]
                if variant == "empty":
                    fr.append(bytes([0x0F]) + bytes(7))
                elif variant == "short":
                    fr.append(bytes([0x0B]) + sb[:2] + bytes(5))
                else:
                    fr += [bytes([0x0A]) + sb[:2] + bytes(5), bytes([0x1B]) + sb[2:] + bytes(5)]
                for f_ in fr:
                    evs = sim.rx(rid, f_)
                    if [e for e in evs if e[0] == "nvm"] or S.cbs(evs, "paradef"):
                        fail("partial-signature/%s" % variant, "segmented download (%s) of an incomplete signature to %04x:%d caused %r" % (
                            variant, idx, sub, [e for e in evs if e[0] == "nvm" or (e[0] == "cb" and e[1] == "paradef")][:3])); return False, m
                sim.rx(rid, bytes([0x80, idx & 0xFF, idx >> 8, sub, 0, 0, 0, 8]))
                sim.cmd("geterr")           # the refused transfer may leave an SDO error code in the node: not what the following steps look for
                res.counters["partial_signature_downloads"] += 1
            elif op[0] == "ramset":
                m.ram[op[1]][:] = op[2]
                sim.cmd("ramset %d %s" % (op[1], op[2].hex()))
            elif op[0] == "reset":
                err = m.load([1, 2] if op[1] == 129 else [2])
                evs = sim.rx(0, bytes([op[1], lay.nid]))
                ge = int(sim.ret("geterr")[0])
                reloads += 1
                if err and ge == 0:
                    fail("reset/short-read-ignored", "short NVM read during NMT reset but CONodeGetErr() == 0"); return False, m
                if not err and ge != 0:
                    fail("reset/error", "CONodeGetErr() = %d after a clean NMT reset" % ge); return False, m
                if err:
                    res.evals += 1; res.counters["faults_injected"] += 1; res.counters["short_reads_surfaced"] += 1
                    if stores:
                        res.nt(tag, fault)
                    return compare_others("reset"), m
            else:
                err = m.restart()
                sim.cmd("restart")
                ge = int(sim.ret("geterr")[0])
                sim.cmd("start")
                reloads += 1
                if err and ge == 0:
                    fail("restart/short-read-ignored", "short NVM read during initialisation but CONodeGetErr() == 0"); return False, m
                if not err and ge != 0:
                    fail("restart/error", "CONodeGetErr() = %d after a clean restart" % ge); return False, m
                if err:
                    res.evals += 1; res.counters["faults_injected"] += 1; res.counters["short_reads_surfaced"] += 1
                    if stores:
                        res.nt(tag, fault)
                    return compare_others("restart"), m
            arm()
            if not compare():
                return False, m
        res.evals += 1
        res.counters["nvm_reads"] += m.calls["r"]
        res.counters["nvm_writes"] += m.calls["w"]
        res.counters["stores_ok"] += stores
        if fault and m.fault_hit:
            res.counters["faults_injected"] += 1
        if stores and (reloads or (fault and m.fault_hit)):
            res.nt(tag, fault)
        if sample:
            res.sample({"layout": [(g["off"], g["size"], g["type"], g["en"]) for g in lay.groups], "script": script[:12], "fault": fault})
        return True, m
    except S.SimDied as e:
        res.violation("c17/crash/" + e.signature, "executor died: " + e.signature, sim=sim, detail=e.detail[-2000:])
        return False, m
    finally:
        sim.close()


def plan(tier, seed):
    q = tier == "quick"
    return [("seq", i, 6 if q else 60) for i in range(48 if q else 160)]


def work(item, ctx):
    res = F.Res()
    # every fourth item on a build without LSS slave and SDO client (parameter handling may not depend on either)
    exe = ctx["exes"]["lean" if item[1] % 4 == 3 else "asan"]
    if item[1] % 4 == 3:
        res.counters["sequences_on_build_without_lss"] += item[2]
    for h in range(item[2]):
        rng = random.Random(F.seed_for(ctx["seed"], "C17", item[1], h))
        lay = Layout(rng)
        ops = gen_script(rng, lay)
        tag = (item[1], h)
        ok, m = execute(res, exe, lay, ops, None, tag, sample=(item[1] == 0 and h == 0))
        if not ok:
            return res
        nr, nw = m.calls["r"], m.calls["w"]
        # (b) restart after every prefix
        for i in range(len(ops) + 1):
            ok, _ = execute(res, exe, lay, ops[:i] + [("restart",)] + ops[i:i + 2], None, tag + ("restart", i))
            if not ok:
                return res
            res.counters["restart_points"] += 1
        # (c) every NVM call short
        for kind, n in (("r", nr), ("w", nw)):
            for k in range(1, n + 1):
                for short in (1, 1000):
                    ok, _ = execute(res, exe, lay, ops + [("restart",)], (kind, k, short), tag + (kind, k, short))
                    if not ok:
                        return res
    return res


def selftest(ctx):
    rng = random.Random(3)
    lay = Layout(rng)
    m = PModel(lay)
    m.fault = ("w", 1, 1)
    m.fault_hit = False
    sub = next(s for s in lay.subs() if lay.groups[lay.group_of(s)]["en"])
    assert m.store(sub) == "abort" and m.fault_hit


def finish(total, tier):
    c = total.counters
    p = []
    if c["faults_injected"] < 200 or c["restart_points"] < 300:
        p.append("fault enumeration too thin: %r" % dict(c))
    return p


def replay(case, ctx):
    return F.replay_log(case, ctx)
