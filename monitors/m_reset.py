"""C20 - a reset communication is indistinguishable from a fresh start (differential)."""
import random, copy
import framework as F
import sim as S
import gen
import hostile as H
from sim import Obj, Config, var, W, R, P, A, N, D, RW

PROP = "C20"
LEVEL = "exploration"
RULE = ("differential: node A runs a generated history H (SDO traffic incl. aborted / mutated transfers and reconfiguration of 1017h, 1016h, "
        "1005h/1006h and PDO parameters, heartbeats, SYNCs, RPDOs, LSS requests, SDO client requests left busy, EMCY, NMT state changes, "
        "application timers, ticks, a quarter with a self-starting application (OPERATIONAL requested inside the notification of PRE-OPERATIONAL), every 8th pair on a build with two SDO servers / without LSS and SDO client, every 4th pair with the reset requested by the application from inside a callback of the stack (heartbeat event / state change, SDO client completion, timer callback), optionally ending between COTmrService and COTmrProcess; every 4th pair a sparse configuration with a single timer period and the reset taken while the expired event is unprocessed), then NMT reset communication (or reset node); node B is a FRESH executor initialised with exactly the "
        "dictionary values A holds after the reset; both receive the same probe sequence P (every service, >= 3 periods of every cyclic "
        "producer) and the traces (frames with relative ticks, callbacks, API results, driver calls) must be equal, frames of one tick "
        "compared as a multiset; timer-pool occupancy per owner class must be equal apart from A's live application timers, which keep their slots and their exact period through H, reset and P; the timer processing right after the reset must run nothing of the old communication; "
        "non-trivial = pair whose H changed >= 1 communication parameter or left a transfer/timer open; distinct by (configuration, H)")
ASSUMPTIONS = ["equivalence is established for the probes in P only", "CONodeGetErr is excluded from P",
               "H stores no LSS bit timing (node ids: yes) and ends in PRE-OPERATIONAL, OPERATIONAL or STOPPED", "no parameter groups (1010h/1011h) in these dictionaries (C17 covers them)"]
VARIANTS = ["asan", "asan2", "lean"]


def clone_with_values(cfg, tokens):
    """A configuration with the same structure whose initial values are the dumped tokens."""
    c = Config(nodeid=cfg.nodeid, baud=cfg.baud, freq=cfg.freq, tmrnum=cfg.tmrnum)
    c.emcy = list(cfg.emcy)
    c.nvm = cfg.nvm
    for o, tok in zip(cfg.objs, tokens):
        n = Obj(o.idx, o.sub, o.flags, o.type, o.kind, *o.args)
        if o.kind == "D":
            n.args[0] = int(tok, 16)
        elif o.kind == "V":
            n.args[1] = int(tok, 16)
        elif o.kind == "S":
            n.args[0] = tok[:-2] if len(tok) > 2 else "-"
        elif o.kind == "M":
            n.args[1] = tok if tok != "-" else "-"
        elif o.kind == "H":
            a, b = tok.split(":")
            n.args[0], n.args[1] = int(a), int(b)
        elif o.kind == "U":
            n.args[4] = int.from_bytes(bytes.fromhex(tok), "little")
        c.objs.append(n)
    c.finalize()
    return c


def make_cfg(rng, ns=1):
    nid = rng.choice([1, 5, 100])
    cfg = H.full_config(rng, ns, nodeid=nid, drop=("1010",), tmrnum=32, freq=rng.choice([1000, 1000, 10000]))
    return cfg


def setval(cfg, idx, sub, v):
    if cfg.has(idx, sub):
        o = cfg.get(idx, sub)
        if o.kind == "D":
            o.args[0] = v
        elif o.kind == "V":
            o.args[1] = v
        elif o.kind == "H":
            o.args[1] = v


def make_sched(rng):
    """Sparse configurations in which one or two timed services run with one period, and a history that ends between
    COTmrService() and COTmrProcess(): the expired event waits in the elapsed list when the reset is handled."""
    nid = rng.choice([1, 5, 100])
    drop = ("1010", "18xx") if rng.random() < 0.7 else ("1010",)
    cfg = H.full_config(rng, 1, nodeid=nid, drop=drop, tmrnum=32, freq=1000)
    p = rng.choice([3, 5, 10, 20])
    which = rng.choice(["sync", "hbprod", "hbc", "sync+hbprod", "hbc+hbprod", "all"])
    setval(cfg, 0x1017, 0, p if "hbprod" in which or which == "all" else 0)
    setval(cfg, 0x1005, 0, 0x40000080 if "sync" in which or which == "all" else 0x80)
    setval(cfg, 0x1006, 0, p * 1000 if "sync" in which or which == "all" else 0)
    hbn = None
    for sub in range(1, 5):
        if cfg.has(0x1016, sub):
            o = cfg.get(0x1016, sub)
            if hbn is None and ("hbc" in which or which == "all"):
                hbn = o.args[0]
                o.args[1] = p
            else:
                o.args[1] = 0
    for c in range(4):
        if cfg.has(0x1800 + c, 5) and rng.random() < 0.8:
            setval(cfg, 0x1800 + c, 5, 0)
            setval(cfg, 0x1800 + c, 3, 0)
    hist = []
    if rng.random() < 0.6:
        hist.append("rx 0 2 01%02x" % nid)
    if rng.random() < 0.5:
        hist.append("tick %d" % rng.randint(0, 2 * p))
    if hbn is not None:
        hist.append("rx %x 1 %02x" % (0x700 + hbn, rng.choice([5, 0x7f, 4])))
    napp = 0
    if rng.random() < 0.3:
        hist.append("tmrcreate %d %d 0" % (rng.choice([2, p, 50]), rng.choice([7, p, 40])))
        napp = 1
    hist.append("tick %d" % rng.randint(0, 3 * p))
    hist.append("svc %d" % rng.choice([1, 2, p - 1, p, p, p + 1, 2 * p]))
    return cfg, hist, napp


def gen_history(rng, cfg, g):
    """Command lines for H; returns (lines, interesting)."""
    nid = cfg.nodeid
    lines = []
    interesting = False
    apptags = []
    n = rng.choice([10, 30, 80])
    if rng.random() < 0.7:
        lines.append("rx 0 2 01%02x" % nid)

    def sdo_wr(idx, sub, val, w):
        cmd = 0x23 | ((4 - w) << 2)
        return "rx %x 8 %s" % (0x600 + nid, (bytes([cmd, idx & 0xFF, idx >> 8, sub]) + (val & 0xFFFFFFFF).to_bytes(4, "little")).hex())
    while len(lines) < n:
        x = rng.random()
        if x < 0.22:
            # reconfiguration of communication parameters
            what = rng.choice(["1017", "1016", "1005", "1006", "1800:5", "1800:1", "1400:1", "1014"])
            interesting = True
            if what == "1017":
                lines.append(sdo_wr(0x1017, 0, rng.choice([0, 10, 20, 100]), 2))
            elif what == "1016":
                lines.append(sdo_wr(0x1016, rng.randint(1, 4), (rng.choice([2, 3, 5, 10, 11]) << 16) | rng.choice([0, 5, 50, 100]), 4))
            elif what == "1005":
                lines.append(sdo_wr(0x1005, 0, rng.choice([0x80, 0x40000080, 0x100, 0x40000100]), 4))
            elif what == "1006":
                lines.append(sdo_wr(0x1006, 0, rng.choice([0, 10000, 50000, 100000]), 4))
            elif what == "1800:5":
                lines.append(sdo_wr(0x1800 + rng.randrange(4), 5, rng.choice([0, 5, 50]), 2))
            elif what == "1800:1":
                c = rng.randrange(4)
                lines.append(sdo_wr(0x1800 + c, 1, (0x40000180 + 0x100 * c + nid) | rng.choice([0, 0x80000000]), 4))
            elif what == "1400:1":
                c = rng.randrange(4)
                lines.append(sdo_wr(0x1400 + c, 1, (0x200 + 0x100 * c + nid) | rng.choice([0, 0x80000000]), 4))
            else:
                lines.append(sdo_wr(0x1014, 0, (0x80 + nid) | rng.choice([0, 0x80000000]), 4))
        elif x < 0.34:
            lines.append(g.sdo_frame(0 if g.ns == 1 else None))
        elif x < 0.42:
            d = g.sdo_dialogue()
            lines += d[:rng.randint(1, min(len(d), 60))] if d else []
            interesting = True
        elif x < 0.50:
            lines.append(g.hb_frame())
        elif x < 0.55:
            l = g.lss_frame()
            if " 15" in l[:14] or " 17" in l[:14]:       # no activate bit timing (21) / store (23)
                continue
            d0 = l.split()[3][:2]
            if d0 in ("15", "17"):
                continue
            lines.append(l)
        elif x < 0.575:
            # a new node id is configured and stored through LSS: it becomes the active id with the reset (the fresh node finds it in
            # the persistent store when it initialises)
            if not any(l_.startswith("rx 7e5 8 17") for l_ in lines):
                lines += ["rx 7e5 8 0401000000000000", "rx 7e5 8 11%02x000000000000" % rng.choice([2, 17, 99, 126, 127]), "rx 7e5 8 1700000000000000"]
                if rng.random() < 0.7:
                    lines.append("rx 7e5 8 0400000000000000")
                interesting = True
        elif x < 0.61:
            lines.append(g.rpdo_frame())
        elif x < 0.67:
            lines.append(g.sync_frame())
        elif x < 0.72:
            if rng.random() < 0.4:
                # the application reacts to the end of that transfer - also when the end is the reset itself - with an API call from
                # inside the completion callback: it registers an emergency, or asks for the next transfer on the same client
                lines.append(rng.choice(["csdocbemcy", "csdocbreq 50"]))
            lines.append(rng.choice(["csdoup 0 2000 0 %d %d" % (rng.choice([2, 4, 30]), rng.choice([5, 1000])),
                                     "csdodown 0 2000 1 %s %d" % (gen.rand_bytes(rng, rng.choice([2, 20])).hex(), rng.choice([5, 1000]))]))
            interesting = True
        elif x < 0.75:
            lines.append(g.csdo_resp_frame())
        elif x < 0.82:
            ne = max(1, len(cfg.emcy))
            lines.append(rng.choice(["emcyset %d" % rng.randrange(ne), "emcyclr %d" % rng.randrange(ne), "trigpdo %d" % rng.randrange(4),
                                     "wr 2001 0 1 %x" % rng.getrandbits(8), "wr 2001 2 4 %x" % rng.getrandbits(32), "hbevents 2"]))
        elif x < 0.86:
            if len(apptags) < 3:
                tag = len(apptags)
                apptags.append(tag)
                lines.append("tmrcreate %d %d %d" % (rng.choice([5, 50]), rng.choice([7, 13, 40]), tag))
                interesting = True
        elif x < 0.90:
            lines.append("rx 0 2 %02x%02x" % (rng.choice([1, 2, 128, 1]), nid))
        else:
            lines.append("tick %d" % rng.choice([1, 3, 10, 50, 120]))
    # leave the node in a state that accepts NMT commands
    lines.append("rx 0 2 %02x%02x" % (rng.choice([1, 128, 2, 128]), nid))
    if rng.random() < 0.3:
        # the reset is handled between the tick interrupt(s) and the timer processing of the background loop
        lines.append("svc %d" % rng.choice([1, 1, 2, 5, 10, 50]))
        interesting = True
    return lines, interesting, len(apptags)


def probes(rng, cfg, nid=None):
    nid = nid if nid is not None else cfg.nodeid
    rid = 0x600 + nid
    P = []
    def rd(idx, sub):
        return "rx %x 8 %s" % (rid, bytes([0x40, idx & 0xFF, idx >> 8, sub, 0, 0, 0, 0]).hex())
    close = "rx %x 8 8000000000000008" % rid
    for (idx, sub) in [(0x1000, 0), (0x1001, 0), (0x1005, 0), (0x1017, 0), (0x1018, 1), (0x1016, 1), (0x1014, 0), (0x2000, 2), (0x2010, 3), (0x2020, 6), (0x1800, 1), (0x1A00, 0)]:
        if cfg.has(idx, sub):
            P += [rd(idx, sub), close]
    if cfg.has(0x1201, 1):
        # the second SDO server: idle like the first one
        rid2 = 0x610 + nid
        for (idx, sub) in [(0x1000, 0), (0x2000, 2), (0x1018, 1)]:
            P += ["rx %x 8 %s" % (rid2, bytes([0x40, idx & 0xFF, idx >> 8, sub, 0, 0, 0, 0]).hex()), "rx %x 8 8000000000000008" % rid2]
    hist = [(0x1003, n) for n in (0, 1, 2, 4)]
    for (idx, sub) in hist:                              # "emergencies cleared": the history the node reports restarts like the fresh node's
        if cfg.has(idx, sub):
            P += [rd(idx, sub), close]
    P += ["tick 30", "rx 7e5 8 0401000000000000", "rx 7e5 8 5e00000000000000", "rx 7e5 8 0400000000000000"]
    P += ["rx %x 1 05" % (0x700 + n) for n in (2, 3, 5, 10, 11)]
    P += ["tick 120", "rx 80 0 -", "rx 100 0 -", "emcyset 0", "emcyclr 0", "trigpdo 0"]
    P += ["csdoup 0 2000 0 4 20", "rx %x 8 4300200011223344" % (0x580 + g_srv(cfg)), "tick 25"]
    P += ["rx 0 2 01%02x" % nid, "tick 10"]
    for c in range(4):
        P += ["trigpdo %d" % c, "rx %x 8 0102030405060708" % (0x200 + 0x100 * c + nid)]
    P += ["wr 2001 0 1 5a", "wr 2001 1 2 1234", "rx 80 0 -", "tick 3", "rx 80 0 -", "rx 100 0 -", "tick 260"]
    P += ["rx %x 1 7f" % (0x700 + n) for n in (2, 3, 5)]
    P += ["tick 400", "hbevents 2", "hbevents 3", "hbevents 5", "hblast 2", "emcyset 0", "tick 5", "emcycnt"]
    for (idx, sub) in hist:
        if cfg.has(idx, sub):
            P += [rd(idx, sub), close]
    P += [rd(0x2001, 0), rd(0x2000, 1), "rx 0 2 80%02x" % nid, "tick 130", "rx 0 2 02%02x" % nid, "tick 60", "rx 0 2 01%02x" % nid, "tick 60"]
    return P


def g_srv(cfg):
    return cfg.get(0x1280, 3).args[1] if cfg.has(0x1280, 3) else 2


def normalize(evs, base):
    out = []
    txs = []
    for e in evs:
        if e[0] == "tx":
            txs.append((int(e[1]) - base, e[2], e[3], e[4], len(e) > 5))
        elif e[0] == "cb":
            if e[1] == "apptmr":
                continue
            a = list(e[1:])
            if e[1] == "hbevent":
                a[2] = str(int(a[2]) - base)
            elif e[1] == "csdo":
                a[5] = str(int(a[5]) - base)
            out.append(("cb",) + tuple(a))
        elif e[0] in ("ret", "drv", "inv", "nvm"):
            out.append(tuple(e))
    return sorted(txs), out


class AppTimers:
    """Application timers of node A: created cyclic and never deleted by the workload, so every one of them has to keep its
    period through H, the reset and P (exactly, while service and processing run back to back) and to keep its pool slot."""

    def __init__(self, hist):
        self.cycle = {}
        self.last = {}
        self.fired = {}
        self.deferred = any(h.startswith("svc") for h in hist)
        for h in hist:
            if h.startswith("tmrcreate"):
                f = h.split()
                self.cycle[int(f[3])] = int(f[2])

    def feed(self, evs, phase):
        for e in evs:
            if e[0] == "cb" and e[1] == "apptmr":
                tag, t = int(e[2]), int(e[3])
                if tag in self.last and not self.deferred and t - self.last[tag] != self.cycle.get(tag):
                    return "application timer %d (cycle %s) fired at ticks %d and %d (%s)" % (tag, self.cycle.get(tag), self.last[tag], t, phase)
                if tag in self.last and self.deferred and phase == "P" and self.fired.get((tag, "P"), 0) >= 1 and t - self.last[tag] != self.cycle.get(tag):
                    return "application timer %d (cycle %s) fired at ticks %d and %d (%s)" % (tag, self.cycle.get(tag), self.last[tag], t, phase)
                self.last[tag] = t
                self.fired[(tag, phase)] = self.fired.get((tag, phase), 0) + 1
        return None


def callback_reset(rng, cfg, kind):
    """The end of H when the application itself resets the node - from inside a callback of the stack, i.e. while the service that
    informs it is still on the call stack.  Returns command lines (the last one runs the callback) or None."""
    typ = 2 if kind == 130 else 1
    cons = [(cfg.get(0x1016, s_).args[0], cfg.get(0x1016, s_).args[1]) for s_ in range(1, 5) if cfg.has(0x1016, s_)]
    cons = [(n_, t_) for (n_, t_) in cons if t_ > 0 and 1 <= n_ <= 127]
    opts = ["apptmr", "csdo"] + (["hbevent", "hbevent", "hbchange"] if cons else [])
    w = rng.choice(opts)
    ms = max(1, 1000 // cfg.freq)
    if w == "apptmr":
        return w, ["tmrcreate %d 0 9" % rng.choice([1, 3, 7]), "resetin apptmr %d" % typ, "tick 8"]
    if w == "csdo":
        if not cfg.has(0x1280, 3):
            return None
        return w, ["rx %x 8 8000000000000008" % (0x580 + g_srv(cfg)), "tick 1001", "csdoup 0 2000 0 4 %d" % (5 * ms), "resetin csdo %d" % typ, "tick 8"]
    n_, t_ = rng.choice(cons)
    if w == "hbevent":
        return w, ["rx %x 1 05" % (0x700 + n_), "resetin hbevent %d" % typ, "tick %d" % (t_ * cfg.freq // 1000 + 2)]
    return w, ["rx %x 1 05" % (0x700 + n_), "resetin hbchange %d" % typ, "rx %x 1 7f" % (0x700 + n_)]


def run_pair(res, exe, rng, first, sched=False, cbreset=False, ns=1):
    if sched:
        cfg, hist, napp = make_sched(rng)
        interesting = True
    else:
        cfg = make_cfg(rng, ns)
        g = H.Hostile(rng, cfg, ns)
        hist, interesting, napp = gen_history(rng, cfg, g)
    nid = cfg.nodeid
    kind = rng.choice([130, 130, 129])
    # a self-starting device: the application requests OPERATIONAL inside the notification of PRE-OPERATIONAL - at the first start, at
    # the reset, and in the fresh node
    autostart = (not sched) and rng.random() < 0.25
    a = S.Sim(exe, cfg, start=not autostart)
    if autostart:
        a.cmd("modecb 2 setmode 3")
        a.cmd("start")
    b = None
    app = AppTimers(hist)
    try:
        stored = None
        for evs in a.batch(hist):
            for c_ in S.cbs(evs, "lssstore"):
                if c_[-1] != "FAIL":
                    stored = (int(c_[1]), int(c_[2]))
            for iv in S.invs(evs):
                res.violation("c20/inv-in-history", "invariant during H: " + iv, sim=a)
                return
            msg = app.feed(evs, "H")
            if msg:
                res.violation("c20/app-timer/period", msg + " | H: " + "; ".join(h[:40] for h in hist[-6:]), sim=a)
                return
        a.cmd("geterr")
        stA = a.state()
        if stA["mode"] not in ("2", "3", "4"):
            return                      # H left the node outside the reachable set of the property (not counted)
        cbr = callback_reset(rng, cfg, kind) if cbreset else None
        if cbreset and (cbr is None or stA["mode"] == "4"):
            return
        if cbr:
            occ_before = a.occ()         # (before the one-shot timer whose callback requests the reset is created)
            for l in cbr[1][:-2]:
                app.feed(a.cmd(l), "H")
            a.cmd("geterr")
            a.cmd(cbr[1][-2])
            hist = hist + cbr[1]
            last = cbr[1][-1]
            k_ = None
            for _ in range(int(last.split()[1]) if last.startswith("tick") else 1):
                # tick by tick: the step in which the callback runs is the last one of H
                evs = a.cmd("tick 1" if last.startswith("tick") else last)
                k_ = next((i_ for i_, e_ in enumerate(evs) if e_[0] == "cb" and e_[1] == "resetin"), None)
                if k_ is not None:
                    break
                if app.feed(evs, "H"):
                    break
            if k_ is None:
                res.counters["callback_reset_not_reached"] += 1
                return
            if [e_ for e_ in evs[k_ + 1:] if e_[0] == "cb" and e_[1] == "resetin"]:
                res.inconclusive.append("two resets inside callbacks in one step")
                return
            msg = app.feed(evs, "H")
            evs = evs[k_ + 1:]           # what the node does from the reset on (the rest of that step included)
            # the reset ends an SDO client transfer that is open (its completion callback, and what the scripted application does in
            # it, belong to the reset) - except the transfer whose completion callback requested the reset: that one has ended
            allowed = ("mode", "apptmr", "resetreq", "lssload") + (() if cbr[0] == "csdo" else ("csdo", "csdoreq", "csdoemcy", "csdotimer"))
            late = [e_ for e_ in evs if e_[0] == "cb" and e_[1] not in allowed]
            if late:
                res.violation("c20/callback-reset/after-effects", "reset requested inside the %s callback: after the reset the same step still produced %r | end of H: %s" % (
                    cbr[0], late[:4], "; ".join(h[:40] for h in hist[-6:])), sim=a)
                return
            res.counters["reset_inside_" + cbr[0]] += 1
        else:
            occ_before = a.occ()
            evs = a.rx(0, bytes([kind, 0]))        # addressed to all nodes: H may have changed the node id already (stored LSS configuration + a reset inside H)
        boot = [x for x in S.txs(evs)]
        if stored and stored[1]:
            nid = stored[1]              # "a stored configuration becomes the active node id at the next reset"
            res.counters["resets_activating_a_stored_node_id"] += 1
        got_id = a.ret("getnodeid")
        if got_id is None or int(got_id[0]) != nid:
            res.violation("c20/node-id", "active node id after the reset: %r, reference %d (stored LSS configuration %r)" % (got_id, nid, stored), sim=a)
            return
        if [(x[1], x[3]) for x in boot] != [(0x700 + nid, b"\x00")]:
            res.violation("c20/bootup", "reset emitted %r, reference one boot-up frame" % [("%x" % x[1], x[3].hex()) for x in boot], sim=a)
            return
        baseA = a.tick
        a.cmd("appclear")               # reactions the scripted application had planned for a callback that never came are its own state, not the node's
        # the background loop goes on: timer processing right after the reset must find nothing of the old communication
        ev = a.cmd("tproc")
        msg = app.feed(ev, "P")
        stale = [e for e in ev if e[0] == "tx" or (e[0] == "cb" and e[1] != "apptmr")]
        if stale:
            res.violation("c20/stale-timer-after-reset", "timer processing right after the reset ran %r | end of H: %s" % (
                stale[:4], "; ".join(h[:40] for h in hist[-6:])), sim=a)
            return
        a.cmd("geterr")
        tokens = a.dump()
        cfgB = clone_with_values(cfg, tokens)
        if stored:
            cfgB.lss = stored
        b = S.Sim(exe, cfgB, start=not autostart)
        if autostart:
            b.cmd("modecb 2 setmode 3")
            b.cmd("start")
            b.cmd("appclear")
            res.counters["pairs_with_self_starting_application"] += 1
        b.cmd("geterr")
        P = probes(rng, cfg, nid)
        for i, p in enumerate(P):
            ea = a.cmd(p)
            eb = b.cmd(p)
            msg = app.feed(ea, "P")
            if msg:
                res.violation("c20/app-timer/period", msg + " | end of H: " + "; ".join(h[:40] for h in hist[-6:]), sim=a)
                return
            na, nb = normalize(ea, baseA), normalize(eb, 0)
            if na != nb:
                what = "frames" if na[0] != nb[0] else "callbacks/results"
                svc = p.split()[0] + ("-" + p.split()[1] if p.startswith("rx") else "")
                res.violation("c20/trace/%s/%s" % (what, svc if not p.startswith("tick") else "tick"),
                              "after reset (cs %d) probe #%d '%s': node after reset %r, fresh node %r | end of H: %s" % (
                                  kind, i, p[:50], (na[0][:5], na[1][:5]), (nb[0][:5], nb[1][:5]), "; ".join(h[:40] for h in hist[-5:])),
                              sim=a, expected=repr(nb)[:1500], observed=repr(na)[:1500])
                return
        oa, ob = a.occ(), b.occ()
        for k in ("hbprod", "tpdo", "sync", "csdo", "lss", "hbc", "other"):
            if oa[k] != ob[k]:
                res.violation("c20/timer-occupancy/%s" % k, "timer pool after reset + P: %r, fresh node + P: %r (H created %d application timers)" % (oa, ob, napp), sim=a)
                return
        # application timers survive the reset: same number of slots as right before it, and every one of them fired during P
        if oa["app"] != occ_before["app"]:
            res.violation("c20/app-timer/slots", "application timers in the pool: %d before the reset, %d after reset + P (H created %d) | end of H: %s" % (
                occ_before["app"], oa["app"], napp, "; ".join(h[:40] for h in hist[-6:])), sim=a)
            return
        for tag in app.cycle:
            if occ_before["app"] == len(app.cycle) and not app.fired.get((tag, "P")):
                res.violation("c20/app-timer/stopped", "application timer %d (cycle %d) never fired after the reset | end of H: %s" % (
                    tag, app.cycle[tag], "; ".join(h[:40] for h in hist[-6:])), sim=a)
                return
        res.counters["app_timer_firings_after_reset"] += sum(v for (t, ph), v in app.fired.items() if ph == "P")
        if app.cycle:
            res.counters["pairs_with_application_timers"] += 1
        if any(h.startswith("svc") for h in hist):
            res.counters["reset_between_service_and_process"] += 1
            if occ_before.get("elapsed", 0):
                res.counters["reset_with_unprocessed_elapsed_event"] += 1
        if sched:
            res.counters["sparse_schedule_pairs"] += 1
        res.evals += 1
        res.counters["probe_steps"] += len(P)
        res.counters["reset_node" if kind == 129 else "reset_com"] += 1
        if interesting:
            res.nt(tuple(hist), cfg.nodeid, cfg.freq)
        res.states.add((stA["mode"], stA["sdo0"].split(",")[0], stA["csdo0"].split(",")[0], occ_before["csdo"] > 0, occ_before["lss"] > 0, occ_before["app"]))
        if first:
            res.sample({"node": nid, "freq": cfg.freq, "history_tail": hist[-8:], "reset": kind, "probe_head": P[:6]})
    except S.SimDied as e:
        res.violation("c20/crash/" + e.signature, "executor died: " + e.signature, sim=a, detail=e.detail[-2000:])
    finally:
        a.close()
        if b:
            b.close()


def plan(tier, seed):
    q = tier == "quick"
    return [("pair", i, 14 if q else 130) for i in range(48 if q else 160)]


def work(item, ctx):
    res = F.Res()
    for h in range(item[2]):
        rng = random.Random(F.seed_for(ctx["seed"], "C20", item[1], h))
        if h % 8 == 2:
            run_pair(res, ctx["exes"]["asan2"], rng, False, ns=2)          # two SDO servers (and two clients)
            res.counters["pairs_with_two_servers"] += 1
        elif h % 8 == 6:
            run_pair(res, ctx["exes"]["lean"], rng, False)                 # build without LSS slave and SDO client
            res.counters["pairs_without_lss_and_sdo_client"] += 1
        else:
            run_pair(res, ctx["exes"]["asan"], rng, item[1] == 0 and h == 0, sched=(h % 4 == 3), cbreset=(h % 4 == 1))
    return res


def selftest(ctx):
    a = normalize([["tx", "105", "701", "1", "7f"], ["cb", "hbevent", "5", "110"], ["cb", "apptmr", "1", "3"]], 100)
    b = normalize([["cb", "hbevent", "5", "10"], ["tx", "5", "701", "1", "7f"]], 0)
    assert a == b
    c = normalize([["tx", "6", "701", "1", "7f"]], 0)
    assert c != b


def finish(total, tier):
    p = []
    if sum(v for k, v in total.counters.items() if k.startswith("reset_inside_")) < 60:
        p.append("only %d resets from inside a callback" % sum(v for k, v in total.counters.items() if k.startswith("reset_inside_")))
    if total.evals < 300:
        p.append("only %d (H, P) pairs completed" % total.evals)
    return p


def replay(case, ctx):
    return F.replay_log(case, ctx)
