"""Build the stack from the repository working tree plus a harness program.

Every check rebuilds unconditionally (36 files, ~1.5 s with 16 jobs), so a
stale object can never hide an edit of /repo.
"""
import os, subprocess, glob, shutil, sys
from concurrent.futures import ThreadPoolExecutor

VERIF = os.path.dirname(os.path.dirname(os.path.abspath(__file__)))
REPO = os.environ.get("VERIF_REPO", "/repo")
GUARD = "CANOPEN_STACK_VERIF"

INC = ["config", "core", "hal", "object/basic", "object/cia301", "service/cia301", "service/cia305"]

VARIANTS = {
    # name: (compiler, flags, defines)
    "asan":  ("gcc", "-std=c99 -O1 -g -fno-omit-frame-pointer -fsanitize=address,undefined -fno-sanitize=alignment -fno-sanitize-recover=all", []),
    "asan2": ("gcc", "-std=c99 -O1 -g -fno-omit-frame-pointer -fsanitize=address,undefined -fno-sanitize=alignment -fno-sanitize-recover=all", ["CO_SSDO_N=2", "CO_CSDO_N=2"]),
    # services switched off at compile time (no LSS slave, no SDO client)
    "lean":  ("gcc", "-std=c99 -O1 -g -fno-omit-frame-pointer -fsanitize=address,undefined -fno-sanitize=alignment -fno-sanitize-recover=all", ["USE_LSS=0", "USE_CSDO=0"]),
    # PDO channel counts that differ from each other and from the default (4 / 4)
    "asanp": ("gcc", "-std=c99 -O1 -g -fno-omit-frame-pointer -fsanitize=address,undefined -fno-sanitize=alignment -fno-sanitize-recover=all", ["CO_RPDO_N=2", "CO_TPDO_N=6"]),
    "asanq": ("gcc", "-std=c99 -O1 -g -fno-omit-frame-pointer -fsanitize=address,undefined -fno-sanitize=alignment -fno-sanitize-recover=all", ["CO_RPDO_N=5", "CO_TPDO_N=3"]),
    "casan": ("clang-14", "-std=c99 -O1 -g -fno-omit-frame-pointer -fsanitize=address,undefined -fno-sanitize=alignment -fno-sanitize-recover=all", []),
    "plain": ("gcc", "-std=c99 -O2 -g -DNDEBUG", []),
    "plain2": ("gcc", "-std=c99 -O2 -g -DNDEBUG", ["CO_SSDO_N=2"]),
    "ubsan": ("gcc", "-std=c99 -O1 -g -fno-omit-frame-pointer -fsanitize=undefined -fno-sanitize=alignment -fno-sanitize-recover=all", []),
    "cov":   ("gcc", "-std=c99 -O0 -g --coverage", []),
    # MemorySanitizer (clang only): stack and harness are plain C and fully instrumented, libc is covered by the interceptors
    "msan":  ("clang-14", "-std=c99 -O1 -g -fno-omit-frame-pointer -fsanitize=memory -fsanitize-memory-track-origins=2 -fno-sanitize-recover=all", []),
}


def stack_sources(repo=None):
    repo = repo or REPO
    src = sorted(glob.glob(os.path.join(repo, "src/*/*.c")) + glob.glob(os.path.join(repo, "src/*/*/*.c")))
    return [s for s in src if "/driver/" not in s]


class BuildError(Exception):
    pass


def _run(cmd):
    p = subprocess.run(cmd, stdout=subprocess.PIPE, stderr=subprocess.STDOUT, text=True)
    if p.returncode != 0:
        raise BuildError("command failed: %s\n%s" % (" ".join(cmd), p.stdout[-4000:]))
    return p.stdout


def build(variant, outdir, harness=("cosim.c",), exe="cosim", repo=None, extra_defs=(), rename_text=False, extra_flags=""):
    """Compile stack + harness for `variant` into outdir/<variant>/<exe>."""
    repo = repo or REPO
    cc, flags, defs = VARIANTS[variant]
    d = os.path.join(outdir, variant + ("-" + exe if exe != "cosim" else ""))
    os.makedirs(d, exist_ok=True)
    incs = []
    for i in INC:
        incs += ["-I", os.path.join(repo, "src", i)]
    dflags = ["-D" + GUARD] + ["-D" + x for x in list(defs) + list(extra_defs)]
    srcs = stack_sources(repo)
    objs = []
    jobs = []
    for s in srcs:
        o = os.path.join(d, os.path.basename(s)[:-2] + ".o")
        objs.append(o)
        jobs.append([cc] + flags.split() + extra_flags.split() + dflags + incs + ["-c", s, "-o", o])
    with ThreadPoolExecutor(max_workers=16) as ex:
        list(ex.map(_run, jobs))
    if rename_text:
        for o in objs:
            _run(["objcopy", "--rename-section", ".text=costk", o])
    hsrc = [os.path.join(VERIF, "harness", h) for h in harness]
    out = os.path.join(d, exe)
    _run([cc] + flags.split() + extra_flags.split() + dflags + incs + ["-rdynamic"] + hsrc + objs + ["-o", out, "-lm"])
    return out


if __name__ == "__main__":
    import time
    t = time.time()
    out = build(sys.argv[1] if len(sys.argv) > 1 else "asan", os.path.join(VERIF, ".build", "manual"))
    print(out, "%.2fs" % (time.time() - t))
