"""C07 / C08 - timer manager (engine: harness/tmrcheck.c)."""
import os, subprocess, types
import framework as F
import sim as S

LEVEL = "exploration"


def run_engine(res, exe, args, prefix, sample=False):
    e = dict(os.environ); e.update(S.ASAN_ENV)
    cmd = [exe] + [str(a) for a in args]
    try:
        p = subprocess.run(cmd, stdout=subprocess.PIPE, stderr=subprocess.PIPE, text=True, env=e, timeout=7200)
    except subprocess.TimeoutExpired:
        res.inconclusive.append("engine timeout: " + " ".join(cmd))
        return
    done = False
    for l in p.stdout.splitlines():
        t = l.split(None, 2)
        if not t:
            continue
        if t[0] == "viol":
            text = t[2] if len(t) > 2 else ""
            desc, _, trace = text.partition(" || trace:")
            res.violation(prefix + "/" + t[1], desc, log=[" ".join(cmd)], observed=trace.strip()[:1500])
        elif t[0] == "stat":
            res.counters[t[1]] += int(t[2])
        elif t[0] == "sample" and sample:
            res.sample(l[7:])
        elif t[0] == "done":
            done = True
    if p.returncode == 97:
        return          # hang already reported by the engine's watchdog as a violation line
    if p.returncode != 0 or not done:
        sig = S.parse_crash(p.stderr, p.returncode)
        res.violation(prefix + "/crash/" + sig, "engine died: " + sig, log=[" ".join(cmd)], detail=p.stderr[-2500:])


def c07_work(item, ctx):
    res = F.Res()
    exe = ctx["exes"]["asan:tmrcheck"]
    kind = item[0]
    if kind == "bfs":
        _, pool, depth, maxst = item
        run_engine(res, exe, ["c07bfs", pool, depth, maxst], "c07")
        res.nt_count = res.counters["bfs_states"]          # distinct (model state, implementation image) pairs, each expanded with every operation
        res.states = set((pool, i) for i in range(min(res.counters["bfs_states"], 50000)))
        res.sample({"bfs": "pool %d, depth %d" % (pool, depth), "distinct_states": res.counters["bfs_states"],
                    "truncated": bool(res.counters["bfs_truncated"]), "operations": "create(s,c,callback-behaviour) s in 0..3 c in 0..2, delete(id) id in -1..pool, tick+process"})
        res.extra["bfs_pool%d" % pool] = {"depth": depth, "states": res.counters["bfs_states"], "complete_to_depth": not res.counters["bfs_truncated"]}
    elif kind == "deferred":
        # the quantifier lists tick and process as separate operations: sequences in which processing does not follow every tick
        # (rules of A.2 for that regime: never before due, once per expiry, in the first processing pass after the due tick)
        _, idx, nseq, maxops = item
        run_engine(res, exe, ["c08plain", F.seed_for(ctx["seed"], "C07deferred", idx) & 0xFFFFFFFF, nseq, maxops], "c07")
        for i in range(0, nseq, 50):
            res.nt("deferred", idx, i)
    elif kind == "witness":
        run_engine(res, exe, ["witness"], "c07")
        res.nt("witness")
    elif kind == "latched":
        run_engine(res, exe, ["latched"], "c08")
        res.nt("latched")
    elif kind == "rand":
        _, idx, nseq, nops = item
        run_engine(res, exe, ["c07rand", F.seed_for(ctx["seed"], "C07", idx) & 0xFFFFFFFF, nseq, nops], "c07")
        for i in range(nseq):
            res.nt("rand", idx, i)
    else:
        _, idx, n = item
        run_engine(res, exe, ["conv", F.seed_for(ctx["seed"], "C07conv", idx) & 0xFFFFFFFF, n], "c07")
        res.nt("conv", idx)
    res.evals = res.counters["executions"] + res.counters["conv_cases"]
    return res


def c08_work(item, ctx):
    res = F.Res()
    kind = item[0]
    if kind in ("preempt", "fast"):
        _, idx, nseq, maxops = item
        run_engine(res, ctx["exes"]["ubsan:tmrcheck-tf"], ["c08" if kind == "preempt" else "c08fast", F.seed_for(ctx["seed"], "C08" + kind, idx) & 0xFFFFFFFF, nseq, maxops],
                   "c08", sample=(idx == 0 and kind == "fast"))
        if res.counters["breakpoint_never_hit"]:
            res.inconclusive.append("%d breakpoint placements were never reached" % res.counters["breakpoint_never_hit"])
        res.nt_count = res.counters["preempt_executions"]   # each is a different (sequence, operation, instruction index) placement
        res.extra["distinct_preemption_pcs"] = res.counters["preempt_distinct_pcs"]
        if idx == 0 and kind == "fast":
            res.sample({"preemption": "%d sequences; every stack instruction of every task-level call (create/delete/process) preempted once by the tick ISR" % nseq,
                        "placements": res.counters["preempt_executions"], "isr_deferred_by_lock": res.counters["isr_deferred"]})
    elif kind == "latched":
        run_engine(res, ctx["exes"]["asan:tmrcheck"], ["latched"], "c08")
        res.nt("latched")
    else:
        _, idx, nseq, maxops = item
        run_engine(res, ctx["exes"]["asan:tmrcheck"], ["c08plain", F.seed_for(ctx["seed"], "C08plain", idx) & 0xFFFFFFFF, nseq, maxops], "c08")
        for i in range(0, nseq, 50):
            res.nt("plain", idx, i)
    res.evals = res.counters["executions"]
    return res


def selftest(ctx):
    r = F.Res()
    # a canned engine output line must become a violation through the same parser
    class P: pass
    import tempfile
    with tempfile.NamedTemporaryFile("w", suffix=".sh", delete=False) as f:
        f.write("#!/bin/sh\necho 'viol run/lost x || trace: t'\necho 'stat executions 1'\necho done\n")
    os.chmod(f.name, 0o755)
    try:
        run_engine(r, f.name, [], "c07")
    finally:
        os.unlink(f.name)
    assert r.violations and r.violations[0]["key"] == "c07/run/lost"


def for_property(prop):
    m = types.SimpleNamespace()
    m.__name__ = "m_tmr"
    m.PROP, m.LEVEL, m.selftest = prop, LEVEL, selftest

    def replay(case, ctx):
        print("re-run:", case["log"], "\ntrace:", case.get("observed"))
        print("VIOLATION property=%s replay=(this file)" % prop)
        return 1
    m.replay = replay
    if prop == "C07":
        m.VARIANTS = [("asan", ("tmrcheck.c",), "tmrcheck", {})]
        m.RULE = ("lockstep with a sequential reference model (set of (due, period) + capacity): (a) breadth-first over operation sequences "
                  "{create(s,c) s in 0..3, c in 0..2, with callbacks that do nothing / create / delete; delete(id) for every id incl. stale and "
                  "out of range; tick+process}, executed on the real code with snapshot/restore, expanding each distinct (model state, "
                  "implementation memory image) pair once; (b) random sequences of 1000 operations, pools 1..16, delays 0..50; "
                  "(c) COTmrGetTicks over frequencies (incl. non-divisors) x times 0..65535 x both units; distinct non-trivial = distinct "
                  "explored states + random sequences + conversion sweeps")
        m.ASSUMPTIONS = ["processing follows each tick (the regime of the statement)",
                         "deleting, from a callback, an action due in the pass in progress is confirmed and cancels it (elapsed, not yet processed)",
                         "order of callbacks within one processing step is not constrained"]
        m.work = c07_work

        def plan(tier, seed):
            q = tier == "quick"
            items = [("bfs", 1, 9 if q else 12, 20000), ("bfs", 2, 8 if q else 11, 60000 if q else 250000), ("bfs", 3, 5 if q else 7, 60000 if q else 300000)]
            if not q:
                items.append(("bfs", 4, 5, 300000))
            items += [("rand", i, 300 if q else 20000, 1000) for i in range(12 if q else 64)]
            items += [("conv", i, 20 if q else 300) for i in range(4 if q else 16)]
            items += [("deferred", i, 3000 if q else 60000, 14) for i in range(4 if q else 16)]
            items += [("witness", 0, 0)]
            return items
        m.plan = plan

        def finish(total, tier):
            c = total.counters
            p = []
            if c["callbacks"] < 10000 or c["delete_ok"] < 1000 or c["create_refused"] < 100:
                p.append("timer workload too thin: %r" % {k: c[k] for k in ("callbacks", "delete_ok", "create_refused")})
            if c["conv_exact_cases"] < 10000:
                p.append("too few exact conversion cases")
            return p
        m.finish = finish
    else:
        m.VARIANTS = [("ubsan", ("tmrcheck.c",), "tmrcheck-tf", {"rename_text": True}), ("asan", ("tmrcheck.c",), "tmrcheck", {})]
        m.RULE = ("task-level sequences over {create, delete, tick+process, service only, process only} with callbacks that create/delete; "
                  "for every operation and EVERY instruction of the stack's code executed by it (positions found by x86 trap-flag single stepping, "
                  "then reached by a breakpoint; same-thread handler = single-core ISR) the tick service is raised at that instruction - deferred to the unlock if it falls inside a "
                  "COTmrLock/COTmrUnlock section - then the rest of the sequence and a drain run; oracles: no run before due / twice per "
                  "expiry, no run after confirmed delete, every action due at the start of a processing pass runs in it, nothing lost at "
                  "quiescence, pool conservation and list structure at every quiescent point and at every ISR entry, delete of an "
                  "elapsed-unprocessed action confirmed; distinct = (sequence, operation, instruction index) placements")
        m.ASSUMPTIONS = ["one core, the tick ISR does not nest and never runs inside a lock/unlock section",
                         "one interrupt per task-level call in the breakpoint mode, up to two in the single-stepped share", "x86-64 instruction granularity of this build (gcc -O1 + UBSan)"]
        m.work = c08_work

        def plan(tier, seed):
            q = tier == "quick"
            # 'fast': the instruction is reached with a breakpoint (one interrupt per call); 'preempt': single-stepped, with a second
            # interrupt in 1 of 8 executions (25 us per trap in this VM, hence the small share)
            items = [("fast", i, 150 if q else 4000, 10) for i in range(16 if q else 64)]
            items += [("preempt", i, 1 if q else 6, 10) for i in range(16 if q else 48)]
            items += [("plain", i, 3000 if q else 30000, 14) for i in range(4 if q else 16)]
            items += [("latched", 0, 0)]
            return items
        m.plan = plan

        def finish(total, tier):
            c = total.counters
            p = []
            if c["preempt_executions"] < 100000:
                p.append("only %d preemption placements executed" % c["preempt_executions"])
            if c["isr_deferred"] < 100 or c["elapsed_deletes"] < 20:
                p.append("too few deferred interrupts / elapsed deletes observed: %d / %d" % (c["isr_deferred"], c["elapsed_deletes"]))
            return p
        m.finish = finish
    return m
