"""C13 - RPDO bytes reach exactly the mapped objects, at the right moment."""
import random, itertools
import framework as F
import sim as S
import gen
from sim import Config, var, W, R, P, A, N, D, RW

PROP = "C13"
LEVEL = "exploration"
RULE = ("RPDO tables (every subset of the 4 channels x every synchronous/asynchronous assignment, enumerated) and random tables x mappings "
        "incl. dummy entries 0002h..0007h at every position, 24-bit mappings and objects of 5, 6 and 8 bytes (<= 8 bytes) x histories of RPDO frames (DLC >= mapped "
        "length), SYNCs (before / after / without reception, repeated), local writes, NMT changes, frames for disabled RPDOs and other "
        "identifiers; dictionaries that list the static data types 0002h..0007h which the dummy entries name; (identifiers incl. 80000000h, flag and extended bits on top of configured identifiers), COPdoReceive veto, reconfiguration through SDO "
        "between reception and SYNC (refused COB-ID write while valid, invalidate / change type / re-map / re-validate); after EVERY step the whole object storage is compared with the reference model, plus "
        "COPdoReceive / COPdoSyncUpdate callbacks; non-trivial = history in which >= 1 RPDO was applied; distinct by (table, script)")
ASSUMPTIONS = ["frames shorter than the mapped length are not generated", "mapped objects are not asynchronous TPDO sources",
               "RPDO identifiers are pairwise distinct"]
VARIANTS = ["asan"]

PREOP, OP, STOP = 2, 3, 4
DUMMY_BITS = {2: 8, 3: 16, 4: 32, 5: 8, 6: 16, 7: 32}


class RP:
    def __init__(self, num, cobid, typ, maps):
        self.num, self.cobid, self.typ, self.maps = num, cobid, typ, maps     # maps: (idx, sub, bits)
        self.pending = None

    def nbytes(self):
        return sum(b // 8 for (_, _, b) in self.maps)


def gen_world(rng, chans=None, sync_mask=None):
    nid = rng.choice([1, 3, 100])
    cfg = Config(nodeid=nid, freq=1000, tmrnum=8)
    gen.add_mandatory(cfg, hb=0, sync_id=0x80, ssdo=1, ssdo_rw=False)
    objs = {}
    pool = []
    for i in range(12):
        w = [1, 2, 4][i % 3]
        v = rng.getrandbits(8 * w)
        objs[(0x2200, i)] = [w, v]
        cfg.add(var(0x2200, i, RW | P, w, v))
        pool.append((0x2200, i, w))
    # mapped objects larger than 4 bytes (the application copies them in CORpdoWriteData)
    for i, w in enumerate((5, 6, 8, 257, 260)):       # 257 / 260: sizes whose low byte looks like a basic type
        d = gen.rand_bytes(rng, w)
        objs[(0x2210, i)] = [w, int.from_bytes(d, "little")]
        cfg.add(S.domain(0x2210, i, w, d, flags=RW | P))
        if sync_mask is None:
            pool.append((0x2210, i, w))
    # mapped objects of a size no basic type has (UNSIGNED24 as user type): handed to the application like the large ones
    for i in range(2):
        v = rng.getrandbits(24)
        objs[(0x2220, i)] = [3, v]
        cfg.add(S.Obj(0x2220, i, RW | P, "usr", "U", 3, 0, 0, 0, v))
        if sync_mask is None:
            pool.append((0x2220, i, 3))
    # static data type entries 0002h..0007h listed in the dictionary (CiA 301 allows it; a read returns the bit length): a dummy mapping
    # names the data type, not this entry - nothing is ever written there
    if rng.random() < 0.35:
        for d_ in rng.sample([2, 3, 4, 5, 6, 7], rng.randint(1, 6)):
            cfg.add(var(d_, 0, RW, 4, DUMMY_BITS[d_]))
    if chans is None:
        chans = [c for c in range(4) if rng.random() < 0.65] or [rng.randrange(4)]
    rps = []
    for c in chans:
        maps, total = [], 0
        cand = pool[:]
        rng.shuffle(cand)
        n = rng.randint(0, 6)
        k = 0
        while len(maps) < n and k < 40:
            k += 1
            if rng.random() < 0.35:
                d = rng.choice([2, 3, 4, 5, 6, 7])
                bits = DUMMY_BITS[d]
                ent = (d, 0, bits)
            else:
                idx, sub, w = cand[k % len(cand)]
                if any(m[0] == idx and m[1] == sub for m in maps):
                    continue
                bits = 8 * w
                if w == 4 and rng.random() < 0.3:
                    bits = 24
                if w > 4 and (w > 8 or rng.random() < 0.4):
                    bits = rng.choice([8, 16, 24, 32, 40])       # the leading bytes of a large object only (application's data, mapped length < size)
                    bits = min(bits, 8 * (w - 1))
                ent = (idx, sub, bits)
            if total + bits // 8 > 8:
                continue
            maps.append(ent); total += bits // 8
        sync = bool(sync_mask & (1 << c)) if sync_mask is not None else rng.random() < 0.5
        typ = rng.choice([0, 1, 10, 240]) if sync else rng.choice([254, 255])
        cob = 0x200 + 0x100 * c
        if rng.random() < 0.1 and sync_mask is None:
            cob |= 0x80000000
        gen.add_rpdo(cfg, c, cob, typ, [gen.maplink(*m) for m in maps])
        rps.append(RP(c, cob + nid, typ, maps))
    cfg.finalize()
    return cfg, nid, objs, rps


def apply(rp, data, objs):
    pos = 0
    for (idx, sub, bits) in rp.maps:
        n = bits // 8
        if idx in DUMMY_BITS and idx <= 7:
            pos += n
            continue
        w = objs[(idx, sub)][0]
        if n < w and w > 4:
            # part of a large object: the application copies the mapped bytes to the start of the object, the rest stays
            old = objs[(idx, sub)][1].to_bytes(w, "little")
            objs[(idx, sub)][1] = int.from_bytes(data[pos:pos + n] + old[n:], "little")
        else:
            objs[(idx, sub)][1] = int.from_bytes(data[pos:pos + n], "little")
        pos += n


def run_history(res, exe, rng, first, chans=None, sync_mask=None):
    cfg, nid, objs, rps = gen_world(rng, chans, sync_mask)
    sim = S.Sim(exe, cfg)
    mode = PREOP
    veto = 0
    script = []
    applied = 0
    base = sim.dump()
    order = [(o.idx, o.sub) for o in cfg.objs]

    def fail(key, msg, exp=None, obs=None):
        desc = "; ".join("RPDO%d id %x type %d map %r" % (r.num, r.cobid, r.typ, [("%x" % i, s, b) for i, s, b in r.maps]) for r in rps)
        res.violation("c13/" + key, "%s: %s | script: %s" % (desc, msg, "; ".join(script[-7:])), sim=sim, expected=exp, observed=obs)
        return False

    def check(evs, want_rx, want_sync):
        for iv in S.invs(evs):
            return fail("inv", "invariant " + iv)
        got_rx = len(S.cbs(evs, "pdorx"))
        if got_rx != want_rx:
            return fail("callback/receive", "COPdoReceive called %d times, reference %d" % (got_rx, want_rx))
        got_sync = sorted(int(c[1]) for c in S.cbs(evs, "pdosync"))
        if got_sync != sorted(want_sync):
            return fail("callback/sync-update", "COPdoSyncUpdate for RPDOs %r, reference %r" % (got_sync, sorted(want_sync)))
        if [x for x in S.txs(evs) if x[1] not in (0x700 + nid, 0x580 + nid)]:
            return fail("unexpected-frame", "node transmitted %r" % [("%x" % x[1], x[3].hex()) for x in S.txs(evs)])
        d = sim.dump()
        for k, tok, b in zip(order, d, base):
            if k in objs:
                if k[0] == 0x2220:
                    have = int.from_bytes(bytes.fromhex(tok)[:3], "little")
                else:
                    have = int(tok, 16) if objs[k][0] <= 4 else int.from_bytes(bytes.fromhex(tok), "little")
                if have != objs[k][1]:
                    return fail("storage/mapped-object", "object %04x:%d holds %s, reference %x" % (k[0], k[1], tok, objs[k][1]), "%x" % objs[k][1], tok)
            elif tok != b:
                return fail("storage/other-object", "object %04x:%d changed from %s to %s" % (k[0], k[1], b, tok))
        return True

    try:
        for i in range(rng.choice([20, 40, 70])):
            x = rng.random()
            if x < 0.40 and rps:
                rp = rng.choice(rps)
                need = rp.nbytes()
                dlc = rng.choice([need, 8, 8, rng.randint(need, 8)])
                data = gen.rand_bytes(rng, dlc)
                script.append("rx RPDO%d %s" % (rp.num, data.hex()))
                evs = sim.rx(rp.cobid & 0x7FF, data)
                valid = not (rp.cobid & 0x80000000)
                want_rx = 0
                if mode == OP and valid:
                    want_rx = 1
                    if not veto:
                        if rp.typ > 240:
                            apply(rp, data, objs); applied += 1
                        else:
                            rp.pending = data
                if check(evs, want_rx, []) is not True:
                    return
                if mode in (PREOP, OP) and not (mode == OP and valid):
                    if len(S.cbs(evs, "canrx")) != 1:
                        fail("unclaimed", "frame for an inactive RPDO not handed to the application exactly once"); return
            elif x < 0.60:
                script.append("SYNC")
                evs = sim.rx(0x80, b"")
                ws = []
                if mode == OP:
                    for rp in rps:
                        if rp.pending is not None and rp.typ <= 240:
                            apply(rp, rp.pending, objs); applied += 1
                            rp.pending = None
                            ws.append(rp.num)
                if check(evs, 0, ws) is not True:
                    return
            elif x < 0.72:
                k = rng.choice([k_ for k_ in objs if objs[k_][0] in (1, 2, 4)])
                w = objs[k][0]
                v = rng.getrandbits(8 * w)
                script.append("local write %04x:%d = %x" % (k[0], k[1], v))
                objs[k][1] = v
                evs = sim.cmd("wr %x %x %d %x" % (k[0], k[1], w, v))
                if check(evs, 0, []) is not True:
                    return
            elif x < 0.79 and rps and mode in (PREOP, OP):
                # reconfiguration through SDO between receptions and SYNCs: a refused write changes nothing (a frame waiting for its SYNC
                # still takes effect), an invalidated RPDO drops what it had received, a re-validated one starts empty with the stored settings
                rp = rng.choice(rps)
                ci = 0x1400 + rp.num

                def wr(sub, val, width, accept):
                    script.append("sdo wr %x:%d=%x" % (ci, sub, val))
                    code, evs = S.sdo_write(sim, nid, ci if sub < 10 else 0x1600 + rp.num, sub % 10, val, width)
                    if accept and code is not None:
                        return fail("reconfig/refused", "write %x to %x:%d refused with %r, reference: accepted" % (val, ci, sub, code))
                    if not accept and code is None:
                        return fail("reconfig/accepted", "write %x to %x:%d accepted, reference: refused (PDO is valid)" % (val, ci, sub))
                    if accept:
                        for j_, (k_, tok_) in enumerate(zip(order, sim.dump())):
                            if k_[0] in (ci, 0x1600 + rp.num):
                                base[j_] = tok_
                    return check(evs, 0, [])
                if rng.random() < 0.5 and mode == OP and not (rp.cobid & 0x80000000):
                    data = gen.rand_bytes(rng, 8)
                    script.append("rx RPDO%d %s" % (rp.num, data.hex()))
                    evs = sim.rx(rp.cobid & 0x7FF, data)
                    if not veto:
                        if rp.typ > 240:
                            apply(rp, data, objs); applied += 1
                        else:
                            rp.pending = data
                    if check(evs, 1, []) is not True:
                        return
                if not (rp.cobid & 0x80000000) and rng.random() < 0.4:
                    v = rng.choice([rp.cobid, rp.cobid, (rp.cobid & ~0x7FF) | 0x181 + nid, rp.cobid ^ 1])
                    if wr(1, v, 4, False) is not True:
                        return
                    res.counters["refused_while_pending"] += 1 if rp.pending is not None else 0
                else:
                    if not (rp.cobid & 0x80000000):
                        if wr(1, rp.cobid | 0x80000000, 4, True) is not True:
                            return
                        rp.cobid |= 0x80000000
                        res.counters["dropped_pending"] += 1 if rp.pending is not None else 0
                        rp.pending = None
                    if rng.random() < 0.5:
                        t = rng.choice([0, 1, 240, 254, 255])
                        if wr(2, t, 1, True) is not True:
                            return
                        rp.typ = t
                    if rng.random() < 0.5:
                        small = [(i_, s_, w_) for (i_, s_, w_) in ((0x2200, j, [1, 2, 4][j % 3]) for j in range(12))]
                        rng.shuffle(small)
                        nm, tot = [], 0
                        for (i_, s_, w_) in small[:rng.randint(0, 5)]:
                            if tot + w_ <= 8:
                                nm.append((i_, s_, 8 * w_)); tot += w_
                        if wr(10, 0, 1, True) is not True:
                            return
                        for j, m_ in enumerate(nm):
                            if wr(11 + j, gen.maplink(*m_), 4, True) is not True:
                                return
                        if wr(10, len(nm), 1, True) is not True:
                            return
                        rp.maps = nm
                    if rng.random() < 0.85:
                        if wr(1, rp.cobid & 0x7FFFFFFF, 4, True) is not True:
                            return
                        rp.cobid &= 0x7FFFFFFF
                        rp.pending = None
                        res.counters["revalidated"] += 1
            elif x < 0.88:
                cs = rng.choice([1, 1, 1, 128, 2])
                script.append("nmt %d" % cs)
                evs = sim.rx(0, bytes([cs, nid]))
                old = mode
                mode = {1: OP, 128: PREOP, 2: STOP}[cs]
                if mode == OP and old != OP:
                    for rp in rps:
                        rp.pending = None
                if check(evs, 0, []) is not True:
                    return
            elif x < 0.95:
                cid = rng.choice([0x200 + 0x100 * c + nid + d for c in range(4) for d in (1, -1)] + [0x180 + nid, 0x300, 0x7FF])
                if any((rp.cobid & 0x7FF) == cid for rp in rps):
                    continue
                if rng.random() < 0.3:
                    # identifiers beyond 11 bit: the "not valid" flag value itself, flag and extended bits on top of a configured identifier
                    cid = rng.choice([0x80000000, 0x40000000, 0x20000000, 0] + [(r_.cobid & 0x7FF) | f_ for r_ in rps for f_ in (0x80000000, 0x20000000, 0x40000000, 0x800)])
                script.append("rx other id %x" % cid)
                evs = sim.rx(cid, gen.rand_bytes(rng, 8))
                if check(evs, 0, []) is not True:
                    return
            else:
                veto = 1 - veto
                script.append("veto %d" % veto)
                sim.cmd("fault pdoveto %d" % veto)
        res.evals += 1
        res.counters["applied"] += applied
        if applied:
            res.nt(tuple((r.num, r.cobid, r.typ, tuple(r.maps)) for r in rps), tuple(script))
        res.states.add((tuple(r.num for r in rps), tuple(r.typ <= 240 for r in rps)))
        if first:
            res.sample({"rpdos": [(r.num, "%x" % r.cobid, r.typ, [("%x" % i, s, b) for i, s, b in r.maps]) for r in rps], "script_head": script[:12]})
    except S.SimDied as e:
        res.violation("c13/crash/" + e.signature, "executor died: " + e.signature, sim=sim, detail=e.detail[-2000:])
    finally:
        sim.close()


def plan(tier, seed):
    q = tier == "quick"
    items = [("table", sub, 0) for sub in range(1, 16)]
    items += [("hist", i, 40 if q else 400) for i in range(48 if q else 250)]
    return items


def work(item, ctx):
    res = F.Res()
    exe = ctx["exes"]["asan"]
    if item[0] == "table":
        chans = [c for c in range(4) if item[1] & (1 << c)]
        for mask in range(16):
            if mask & ~item[1]:
                continue
            for rep in range(2 if ctx["tier"] == "quick" else 12):
                rng = random.Random(F.seed_for(ctx["seed"], "C13t", item[1], mask, rep))
                run_history(res, exe, rng, False, chans=chans, sync_mask=mask)
    else:
        for h in range(item[2]):
            rng = random.Random(F.seed_for(ctx["seed"], "C13", item[1], h))
            run_history(res, exe, rng, item[1] == 0 and h == 0)
    return res


def selftest(ctx):
    objs = {(0x2200, 0): [1, 0], (0x2200, 1): [2, 0]}
    rp = RP(0, 0x201, 255, [(5, 0, 8), (0x2200, 1, 16), (0x2200, 0, 8)])
    apply(rp, bytes([9, 0x34, 0x12, 7]), objs)
    assert objs[(0x2200, 1)][1] == 0x1234 and objs[(0x2200, 0)][1] == 7


def finish(total, tier):
    p = []
    if total.counters["applied"] < 2000:
        p.append("only %d RPDO applications observed" % total.counters["applied"])
    if total.counters["refused_while_pending"] < 40 or total.counters["revalidated"] < 300 or total.counters["dropped_pending"] < 40:
        p.append("too few reconfigurations around a waiting frame (%d refused, %d invalidated, %d re-validations)" % (
            total.counters["refused_while_pending"], total.counters["dropped_pending"], total.counters["revalidated"]))
    if len(total.states) < 60:
        p.append("only %d (channel subset, sync assignment) tables exercised" % len(total.states))
    return p


def replay(case, ctx):
    return F.replay_log(case, ctx)
