"""Hostile workload generators: full-featured configurations and a frame / API /
fault grammar weighted towards the identifiers and command bytes the node
reacts to.  Used by C01 (crash oracles only) and as history prefix by C05/C20."""
import random
from sim import Obj, Config, var, string, domain, W, R, P, A, N, D, RW
import gen

BOUND = [0, 1, 2, 3, 4, 5, 6, 7, 8, 9, 126, 127, 128, 255, 256, 888, 889, 890, 1000, 0xFFFF, 0x10000, 0x7FFFFFFF, 0xFFFFFFFF]


def full_config(rng, nservers=1, nodeid=None, minimal=False, drop=(), tmrnum=None, freq=None, fill=0):
    nodeid = nodeid if nodeid is not None else rng.choice([1, 1, 5, 64, 127])
    freq = freq or rng.choice([100, 1000, 1000, 10000, 1000000, 300, 32768])
    if tmrnum is None:
        tmrnum = rng.choice([16, 16, 16, 8, 4, 2, 1, 32, 16, 8, 0])      # 0: a node whose configuration needs no timer gets no pool at all
    cfg = Config(nodeid=nodeid, freq=freq, tmrnum=tmrnum, fill=fill)
    hist = 0 if (minimal or "1003" in drop) else rng.choice([1, 2, 4, 8])
    gen.add_mandatory(cfg, hb=0 if minimal else rng.choice([0, 0, 10, 100, 1000]),
                      sync_id=rng.choice([0x80, 0x80, 0x40000080, 0x100]),
                      sync_cycle=None if (minimal or "1006" in drop) else rng.choice([0, 1000, 10000, 100000, 50]),
                      emcy_hist=hist, ssdo=nservers,
                      with1014="1014" not in drop, with1017="1017" not in drop,
                      with1005="1005" not in drop, with1018="1018" not in drop,
                      ident=tuple(rng.choice([0, 1, 0x12345678, 0xFFFFFFFF]) for _ in range(4)))
    cfg.emcy = [(rng.randint(0, 7), rng.choice([0x1000, 0x2000, 0x3100, 0x8130, 0xFF00])) for _ in range(rng.choice([1, 4, 8, 32]))]
    if minimal:
        return cfg
    # application objects ----------------------------------------------------
    app = []
    def addv(idx, sub, flags, width, init):
        cfg.add(var(idx, sub, flags, width, init)); app.append((idx, sub, width, flags))
    addv(0x2000, 0, RW | P, 1, 0x11)
    addv(0x2000, 1, RW | P, 2, 0x2222)
    addv(0x2000, 2, RW | P, 4, 0x33333333)
    addv(0x2001, 0, RW | P | A, 1, 1)
    addv(0x2001, 1, RW | P | A, 2, 2)
    addv(0x2001, 2, RW | P | A, 4, 3)
    addv(0x2002, 0, R | P, 4, 0xCAFE)
    addv(0x2002, 1, W | P, 4, 0)
    addv(0x2003, 0, D | RW, 4, 0x55)
    addv(0x2003, 1, D | RW, 1, 0x7)
    addv(0x2003, 2, D | N | RW, 2, 0x100)
    addv(0x2004, 0, N | RW, 4, 0x180)
    cfg.add(string(0x2010, 0, b"a")); cfg.add(string(0x2010, 1, b"abc")); cfg.add(string(0x2010, 2, b"abcd"))
    cfg.add(string(0x2010, 3, b"hello")); cfg.add(string(0x2010, 4, gen.rand_nonzero_bytes(rng, rng.choice([7, 8, 14, 100, 889, 890, 1000]))))
    cfg.add(string(0x2010, 5, b""))
    for i, sz in enumerate([1, 3, 4, 5, 7, 8, 20, 889, 890, rng.choice([1778, 2000, 4000])]):
        cfg.add(domain(0x2020, i, sz, gen.rand_bytes(rng, sz)))
    cfg.add(domain(0x2021, 0, 8, gen.rand_bytes(rng, 8), flags=RW | P)); cfg.add(domain(0x2021, 1, 5, gen.rand_bytes(rng, 5), flags=RW | P))   # PDO-mappable objects > 4 bytes
    cfg.add(Obj(0x2030, 0, RW, "usr", "U", 4, 0, 0, 0, 7))
    cfg.add(Obj(0x2030, 1, RW, "usr", "U", 4, 0x102, 0x103, 0, 7))                 # OBJ_READ / OBJ_WRITE
    cfg.add(Obj(0x2030, 2, RW, "usr", "U", 2, 0x109, 0x109, "6090031", 7))          # range + user abort
    cfg.add(Obj(0x2030, 3, RW, "usr", "U", 0, 0, 0, 0, 7))                          # size 0
    cfg.add(Obj(0x2030, 4, RW, "usr", "U", 6, 0, 0, 0, 7))                          # size 6
    cfg.add(Obj(0x2030, 5, RW | P, "usr", "U", 3, 0, 0, 0, 0x332211))               # size 3 (UNSIGNED24), PDO-mappable
    if rng.random() < 0.2:
        cfg.add(Obj(0x2031, 0, RW, "usr", "U", 1, 0, 0, rng.choice(["c0de0082", "c0de0081"]), 0))      # a "reset device" object: its write function resets the node
    if "1016" not in drop:
        n = rng.choice([1, 2, 4])
        nodes = rng.sample([2, 3, 5, 10, 127, 126], n)
        gen.add_hbcons(cfg, [(nodes[i], rng.choice([0, 5, 50, 100, 1000])) for i in range(n)])
    if "1280" not in drop:
        gen.add_csdo(cfg, 0, server=rng.choice([2, 5, 127]))
    if "1010" not in drop:
        ng = rng.choice([1, 2, 3])
        off = 0
        for g in range(ng):
            size = rng.choice([1, 4, 7, 16, 64])
            cfg.paras.append((g, off, size, rng.choice([1, 2]), rng.choice([0, 1, 1, 3]), rng.random() < 0.7,
                              gen.rand_bytes(rng, size), gen.rand_bytes(rng, size)))
            off += size
        nsub = ng if ng == 1 else ng + 1
        cfg.add(var(0x1010, 0, D | R, 1, nsub, "parastore")); cfg.add(var(0x1011, 0, D | R, 1, nsub, "pararestore"))
        for s in range(1, nsub + 1):
            g = 0 if s == 1 else s - 2
            cfg.add(Obj(0x1010, s, RW, "parastore", "P", g)); cfg.add(Obj(0x1011, s, RW, "pararestore", "P", g))
        cfg.nvm = (off + rng.choice([0, 0, 8]) - rng.choice([0, 0, 0, 1]) if off > 1 else off + 8, None)
    # PDOs --------------------------------------------------------------------
    mappable_w = [(0x2000, 0, 8), (0x2000, 1, 16), (0x2000, 2, 32), (0x2001, 0, 8), (0x2001, 1, 16), (0x2001, 2, 32), (0x2002, 1, 32), (0x2000, 2, 24), (0x2021, 0, 64), (0x2021, 1, 40), (0x2030, 5, 24)]
    mappable_r = [(0x2000, 0, 8), (0x2000, 1, 16), (0x2000, 2, 32), (0x2001, 0, 8), (0x2001, 1, 16), (0x2001, 2, 32), (0x2002, 0, 32), (0x2001, 2, 24), (0x2021, 0, 64), (0x2021, 1, 40), (0x2030, 5, 24)]
    dummies = [(2, 0, 8), (3, 0, 16), (4, 0, 32), (5, 0, 8), (6, 0, 16), (7, 0, 32)]
    if "14xx" not in drop:
        chans = [c for c in range(4) if rng.random() < 0.7] or [rng.randrange(4)]
        for c in chans:
            maps, bits = [], 0
            for _ in range(rng.randint(0, 8)):
                m = rng.choice(mappable_w + (dummies if rng.random() < 0.4 else []))
                if bits + m[2] > 64:
                    break
                bits += m[2]; maps.append(gen.maplink(*m))
            cob = 0x200 + 0x100 * c
            if rng.random() < 0.15:
                cob |= 0x80000000
            gen.add_rpdo(cfg, c, cob, rng.choice([0, 1, 10, 240, 254, 255]), maps)
    if "18xx" not in drop:
        chans = [c for c in range(4) if rng.random() < 0.7] or [rng.randrange(4)]
        for c in chans:
            maps, bits = [], 0
            for _ in range(rng.randint(0, 8)):
                m = rng.choice(mappable_r)
                if bits + m[2] > 64:
                    break
                bits += m[2]; maps.append(gen.maplink(*m))
            cob = 0x40000180 + 0x100 * c
            if rng.random() < 0.15:
                cob |= 0x80000000
            gen.add_tpdo(cfg, c, cob, rng.choice([0, 1, 3, 240, 254, 255, 254, 255]),
                         rng.choice([0, 0, 10, 100, 1000]), rng.choice([0, 0, 5, 50, 500]), maps)
    if rng.random() < 0.12 and "18xx" not in drop and "14xx" not in drop:
        # bit-wise mapping records with more than 8 entries (CiA 301 allows up to 64 mapped objects) on channels that are still free
        ft = [c for c in range(4) if not cfg.has(0x1800 + c, 1)]
        fr = [c for c in range(4) if not cfg.has(0x1400 + c, 1)]
        if ft:
            nm = rng.choice([9, 12, 64])
            gen.add_tpdo(cfg, ft[0], 0x40000180 + 0x100 * ft[0], 255, 0, 0, [gen.maplink(0x2000, 0, 1)] * nm, nmap_slots=nm)
        if fr:
            nm = rng.choice([9, 16, 64])
            gen.add_rpdo(cfg, fr[0], 0x200 + 0x100 * fr[0], 255, [gen.maplink(0x2000, 1, rng.choice([1, 4]))] * nm, nmap_slots=nm)
    if rng.random() < 0.15 and "18xx" not in drop and "14xx" not in drop:
        # a device profile with more PDO records than the stack is built for (CO_TPDO_N = CO_RPDO_N = 4): the records are plain values
        gen.add_tpdo(cfg, 4, 0x40000190, rng.choice([1, 254, 255]), 0, rng.choice([0, 5]), [gen.maplink(0x2000, 0, 8)])
        gen.add_rpdo(cfg, 4, 0x210, rng.choice([1, 255]), [gen.maplink(0x2000, 1, 16)])
    if "subs" in drop:
        # records lacking single sub-entries (inhibit / event time, transmission type, identity fields, mapping slots behind the count):
        # whatever the stack reads from such a record, it may not work with a value it never got
        optional = [(0x1800 + c, s_) for c in range(5) for s_ in (2, 3, 5)] + [(0x1400 + c, 2) for c in range(5)] + [(0x1018, s_) for s_ in (2, 3, 4)]
        optional += [(0x1A00 + c, s_) for c in range(4) for s_ in range(5, 9)] + [(0x1600 + c, s_) for c in range(4) for s_ in range(5, 9)] + [(0x1280, 3), (0x1200, 2)] + [(0x1016, s_) for s_ in (1, 2, 3)]
        gone = set(k for k in optional if rng.random() < 0.35)
        cfg.objs = [o for o in cfg.objs if (o.idx, o.sub) not in gone]
    cfg.finalize()
    return cfg


class Hostile:
    """Generates command lines for the executor from a weighted grammar."""

    def __init__(self, rng, cfg, nservers=1):
        self.rng, self.cfg, self.ns = rng, cfg, nservers
        self.node = cfg.nodeid
        self.muxes = [(o.idx, o.sub) for o in cfg.objs]
        self.sync_id = 0x80
        self.rpdo_ids = [0x200 + 0x100 * c + self.node for c in range(4)]
        self.hb_nodes = [o.args[0] for o in cfg.objs if o.kind == "H"] or [2]
        self.ident = [cfg.get(0x1018, i + 1).args[0] if cfg.has(0x1018, i + 1) else 0 for i in range(4)]
        self.csrv = cfg.get(0x1280, 3).args[1] if cfg.has(0x1280, 3) else 2

    # -- helpers ---------------------------------------------------------------
    def mux(self):
        r = self.rng
        x = r.random()
        if x < 0.75:
            idx, sub = r.choice(self.muxes)
        elif x < 0.9:
            idx, sub = r.choice(self.muxes); idx = (idx + r.choice([-1, 1, 0])) & 0xFFFF; sub = (sub + r.choice([-1, 1, 0, 0x80])) & 0xFF
        else:
            idx, sub = r.getrandbits(16), r.getrandbits(8)
        return idx, sub

    def u32(self):
        r = self.rng
        return r.choice(BOUND) if r.random() < 0.7 else r.getrandbits(32)

    def frame(self, cobid, data, dlc=None):
        r = self.rng
        if dlc is None:
            dlc = len(data) if r.random() < 0.93 else r.choice([0, 1, 2, 3, 4, 5, 6, 7, 8, 9, 15, 255])
        data = (bytes(data) + bytes(8))[:8]
        return "rx %x %d %s" % (cobid, dlc, data.hex())

    def sdo_req_id(self, s=None):
        s = self.rng.randrange(self.ns) if s is None else s
        return 0x600 + 0x10 * s + self.node

    # -- SDO server traffic ----------------------------------------------------
    def sdo_cmd_byte(self):
        r = self.rng
        x = r.random()
        if x < 0.85:
            return r.choice([0x40, 0x40, 0x23, 0x2F, 0x2B, 0x27, 0x22, 0x21, 0x20, 0x00, 0x10, 0x01, 0x11, 0x03, 0x0D, 0x1D,
                             0x60, 0x70, 0xC6, 0xC2, 0xC4, 0xC0, 0xA0, 0xA4, 0xA3, 0xA2, 0xA1, 0xC1, 0xC5, 0xDD, 0xD1, 0x80,
                             0x01, 0x02, 0x7F, 0x81, 0x82, 0xFF])
        return r.getrandbits(8)

    def sdo_frame(self, s=None):
        r = self.rng
        cmd = self.sdo_cmd_byte()
        idx, sub = self.mux()
        x = r.random()
        if (cmd & 0xE0) in (0x00,) and x < 0.6:       # segment data
            d = bytes([cmd]) + gen.rand_bytes(r, 7)
        elif cmd == 0xA2 and x < 0.8:
            d = bytes([cmd, r.choice([0, 1, 2, 3, 63, 126, 127, 128, 255]), r.choice([0, 1, 2, 7, 127, 128, 255]), 0, 0, 0, 0, 0])
        elif (cmd & 0xE3) == 0xA0:
            d = bytes([cmd, idx & 0xFF, idx >> 8, sub, r.choice([0, 1, 2, 3, 7, 20, 127, 128, 255]), r.choice([0, 1, 255]), 0, 0])
        else:
            d = bytes([cmd, idx & 0xFF, idx >> 8, sub]) + self.u32().to_bytes(4, "little")
        return self.frame(self.sdo_req_id(s), d)

    def sdo_dialogue(self):
        """Open-loop but plausible multi-frame sequences with mutations (drop/dup/reorder/wrong toggle/...)."""
        r = self.rng
        s = r.randrange(self.ns)
        rid = self.sdo_req_id(s)
        idx, sub = self.mux()
        m = bytes([idx & 0xFF, idx >> 8, sub])
        size = r.choice([1, 2, 3, 4, 5, 7, 8, 14, 20, 100, 889, 890, 900, 1778, 2000, 4000, 6300])
        kind = r.choice(["segdn", "segup", "blkdn", "blkup", "expdn", "expup"])
        fr = []
        if kind == "expdn":
            n = r.randint(0, 3)
            fr.append(bytes([0x23 | (n << 2)]) + m + gen.rand_bytes(r, 4))
        elif kind == "expup":
            fr.append(bytes([0x40]) + m + bytes(4))
        elif kind == "segdn":
            fr.append(bytes([r.choice([0x21, 0x21, 0x20])]) + m + r.choice([size, size, self.u32()]).to_bytes(4, "little"))
            nseg = (size + 6) // 7
            t = 0
            for i in range(nseg):
                last = i == nseg - 1
                nvalid = size - 7 * i if last else 7
                n = 7 - nvalid if (last or r.random() < 0.05) else 0
                fr.append(bytes([(t << 4) | (n << 1) | (1 if last else 0)]) + gen.rand_bytes(r, 7))
                t ^= 1
        elif kind == "segup":
            fr.append(bytes([0x40]) + m + bytes(4))
            t = 0
            for i in range((size + 6) // 7 + 1):
                fr.append(bytes([0x60 | (t << 4)]) + bytes(7)); t ^= 1
        elif kind == "blkdn":
            fr.append(bytes([r.choice([0xC6, 0xC2, 0xC4, 0xC0])]) + m + r.choice([size, size, self.u32()]).to_bytes(4, "little"))
            nseg = (size + 6) // 7
            seq = 0
            for i in range(nseg):
                seq += 1
                last = i == nseg - 1
                fr.append(bytes([seq | (0x80 if last else 0)]) + gen.rand_bytes(r, 7))
                if seq == 127:
                    seq = 0
            fr.append(bytes([0xC1 | (((7 - size % 7) % 7) << 2)]) + bytes(7))
        else:
            bs = r.choice([1, 2, 3, 7, 20, 127])
            fr.append(bytes([0xA0]) + m + bytes([bs, 0, 0, 0]))
            fr.append(bytes([0xA3]) + bytes(7))
            remaining = (size + 6) // 7
            for _ in range(40):
                sent = min(bs, remaining) if remaining > 0 else 0
                ack = sent if r.random() < 0.5 else r.randint(0, max(sent, 1))
                if r.random() < 0.05:
                    ack = r.choice([sent + 1, 127, 255])
                bs = r.choice([bs, bs, 1, 2, 5, 127, r.choice([0, 128])]) if r.random() < 0.3 else bs
                fr.append(bytes([0xA2, ack, bs, 0, 0, 0, 0, 0]))
                remaining -= min(ack, sent)
                if remaining <= 0:
                    break
            fr.append(bytes([0xA1]) + bytes(7))
        # mutations
        for _ in range(r.choice([0, 0, 1, 1, 2, 3])):
            if not fr:
                break
            op = r.choice(["drop", "dup", "swap", "trunc", "toggle", "replast", "abort", "inject", "cut"])
            i = r.randrange(len(fr))
            if op == "drop":
                fr.pop(i)
            elif op == "dup":
                fr.insert(i, fr[i])
            elif op == "swap" and len(fr) > 1:
                j = r.randrange(len(fr)); fr[i], fr[j] = fr[j], fr[i]
            elif op == "trunc":
                fr = fr[:i + 1]
            elif op == "toggle":
                fr[i] = bytes([fr[i][0] ^ 0x10]) + fr[i][1:]
            elif op == "replast":
                fr = fr[:i + 1] + [fr[i]] * r.choice([1, 2, 130])
            elif op == "abort":
                fr.insert(i, bytes([0x80]) + m + bytes(4))
            elif op == "inject":
                idx2, sub2 = self.mux()
                fr.insert(i, bytes([self.sdo_cmd_byte(), idx2 & 0xFF, idx2 >> 8, sub2]) + self.u32().to_bytes(4, "little"))
            elif op == "cut":
                fr = fr[i:]
        return [self.frame(rid, f, 8) for f in fr]

    # -- other services -------------------------------------------------------
    def nmt_frame(self):
        r = self.rng
        cs = r.choice([1, 1, 2, 128, 129, 130, 0, 3, 127, 255, r.getrandbits(8)])
        tgt = r.choice([self.node, self.node, 0, 0, (self.node + 1) & 0x7F, r.getrandbits(8)])
        return self.frame(0, bytes([cs, tgt]))

    def hb_frame(self):
        r = self.rng
        n = r.choice(self.hb_nodes + [r.choice(self.hb_nodes), 0, 1, 127, 128 & 0x7F, r.randint(1, 127)])
        return self.frame(0x700 + n, bytes([r.choice([0, 4, 5, 127, 1, 255, r.getrandbits(8)])]))

    def lss_frame(self):
        r = self.rng
        cs = r.choice([4, 4, 64, 65, 66, 67, 21, 19, 17, 23, 90, 91, 92, 93, 94, 70, 71, 72, 73, 74, 75, 76, 0, 5, 68, 79, r.getrandbits(8)])
        if cs == 4:
            d = bytes([cs, r.choice([0, 1, 1, 2, 255])])
        elif 64 <= cs <= 67:
            v = self.ident[cs - 64] if r.random() < 0.8 else self.u32()
            d = bytes([cs]) + v.to_bytes(4, "little")
        elif 70 <= cs <= 75:
            base = self.ident[[0, 1, 2, 2, 3, 3][cs - 70]]
            v = r.choice([base, base, (base - 1) & 0xFFFFFFFF, (base + 1) & 0xFFFFFFFF, 0, 0xFFFFFFFF])
            d = bytes([cs]) + v.to_bytes(4, "little")
        elif cs == 17:
            d = bytes([cs, r.choice([0, 1, 2, 127, 128, 255, self.node])])
        elif cs == 19:
            d = bytes([cs, r.choice([0, 0, 1, 255]), r.choice([0, 1, 4, 5, 8, 9, 10, 255])])
        elif cs == 21:
            d = bytes([cs]) + r.choice([0, 1, 5, 50, 1000, 65535]).to_bytes(2, "little")
        else:
            d = bytes([cs]) + gen.rand_bytes(r, 7)
        return self.frame(0x7E5, (d + bytes(8))[:8], 8 if r.random() < 0.9 else None)

    def rpdo_frame(self):
        r = self.rng
        cid = r.choice(self.rpdo_ids + [0x200 + 0x100 * c for c in range(4)])
        n = r.choice([8, 8, 8, 0, 1, 4, 7])
        return self.frame(cid, gen.rand_bytes(r, n), n)

    def sync_frame(self):
        r = self.rng
        return self.frame(r.choice([0x80, 0x80, 0x80, 0x100, 0x81, 0x7F]), b"", r.choice([0, 0, 0, 1, 8]))

    def csdo_resp_frame(self):
        r = self.rng
        idx, sub = self.mux()
        cmd = r.choice([0x60, 0x43, 0x4F, 0x4B, 0x47, 0x42, 0x41, 0x40, 0x00, 0x10, 0x01, 0x11, 0x0F, 0x20, 0x30, 0x80, 0xA0, 0xC2, r.getrandbits(8)])
        if (cmd & 0xE0) == 0:
            d = bytes([cmd]) + gen.rand_bytes(r, 7)
        else:
            d = bytes([cmd, idx & 0xFF, idx >> 8, sub]) + self.u32().to_bytes(4, "little")
        return self.frame(0x580 + self.csrv, d)

    def other_frame(self):
        r = self.rng
        cid = r.choice([0x80000000, 0x1FFFFFFF, 0x20000000 | 0x601, 0x40000000 | 0x80, 0x7FF, 0x7E4, 0x100, 0x581, 0x080 + self.node,
                        r.getrandbits(11), r.getrandbits(29), r.getrandbits(32), 0x600, 0x67F, 0x680, 0x5FF])
        return self.frame(cid, gen.rand_bytes(r, 8))

    # -- API calls and faults ---------------------------------------------------
    def api(self):
        r = self.rng
        idx, sub = self.mux()
        ch = r.choice(["setmode", "nmtreset", "emcyset", "emcyset2", "emcyclr", "emcyreset", "emcyget", "emcycnt", "trigpdo", "trigobj",
                       "rd", "wr", "rdbuf", "wrbuf", "hbevents", "hblast", "tmrcreate", "tmrdelete", "csdoup", "csdodown", "geterr",
                       "getticks", "stopstart", "setnodeid", "find"])
        if ch == "setmode":
            return "setmode %d" % r.choice([1, 2, 3, 4, 2, 3])
        if ch == "nmtreset":
            return "nmtreset %d" % r.choice([1, 2])
        ne = max(1, len(self.cfg.emcy))      # API precondition: error index < table length
        if ch == "emcyset":
            return "emcyset %d" % r.randrange(ne)
        if ch == "emcyset2":
            return "emcyset %d %x %s" % (r.randrange(len(self.cfg.emcy)), r.getrandbits(16), gen.rand_bytes(r, 5).hex())
        if ch == "emcyclr":
            return "emcyclr %d" % r.randrange(ne)
        if ch == "emcyreset":
            return "emcyreset %d" % r.choice([0, 1])
        if ch == "emcyget":
            return "emcyget %d" % r.randrange(ne)
        if ch == "trigpdo":
            return "trigpdo %d" % r.choice([0, 1, 2, 3, 4, 65535])
        if ch == "trigobj":
            return "trigobj %x %x" % (idx, sub)
        if ch == "rd":
            return "rd %x %x %d" % (idx, sub, r.choice([1, 2, 4]))
        if ch == "wr":
            # the application writes objects that are writable; constants such as 'highest sub-index' entries are left alone
            # (an application that overwrites them makes its own dictionary ill-formed)
            wobjs = [(o.idx, o.sub) for o in self.cfg.objs if o.flags & W]
            if wobjs and r.random() < 0.9:
                idx, sub = r.choice(wobjs)
            elif (idx, sub) in [(o.idx, o.sub) for o in self.cfg.objs if not (o.flags & W)]:
                return "geterr"
            return "wr %x %x %d %x" % (idx, sub, r.choice([1, 2, 4]), self.u32())
        if ch in ("rdbuf", "wrbuf"):           # buffer API: objects with buffer semantics only (strings, domains)
            bufobjs = [(o.idx, o.sub) for o in self.cfg.objs if o.kind in ("S", "M")]
            if not bufobjs:
                return "geterr"
            idx, sub = r.choice(bufobjs)
        if ch == "rdbuf":
            return "rdbuf %x %x %d" % (idx, sub, r.choice([0, 1, 4, 7, 100, 255, 256, 300, 4000]))
        if ch == "wrbuf":
            return "wrbuf %x %x %s" % (idx, sub, gen.rand_bytes(r, r.choice([1, 4, 7, 100, 255, 256, 300, 4000])).hex())
        if ch == "hbevents":
            return "hbevents %d" % r.choice(self.hb_nodes + [0, 255])
        if ch == "hblast":
            return "hblast %d" % r.choice(self.hb_nodes + [0, 255])
        if ch == "tmrcreate":
            return "tmrcreate %d %d %d" % (r.choice([0, 1, 2, 5, 50]), r.choice([0, 0, 1, 3, 10]), r.randrange(8))
        if ch == "tmrdelete":
            return "tmrdelete %d" % r.choice([-1, 0, 1, 2, 3, 5, 15, 16, 31, 32767])
        if ch == "csdoup":
            return "csdoup 0 %x %x %d %d" % (idx, sub, r.choice([1, 2, 4, 5, 7, 8, 100, 263, 2000]), r.choice([1, 10, 100, 1000]))
        if ch == "csdodown":
            return "csdodown 0 %x %x %s %d" % (idx, sub, gen.rand_bytes(r, r.choice([1, 2, 4, 5, 7, 8, 100, 263, 2000])).hex(), r.choice([1, 10, 100]))
        if ch == "geterr":
            return "geterr"
        if ch == "getticks":
            return "getticks %d %d" % (r.choice([0, 1, 100, 65535]), r.choice([1000, 10000]))
        if ch == "stopstart":
            return r.choice(["stop", "start", "start", "restart"])
        if ch == "setnodeid":
            return "setnodeid %d" % r.choice([0, 1, 127, 255])
        return "find %x" % ((idx << 16) | (sub << 8) | r.getrandbits(8))

    def fault(self):
        r = self.rng
        w = r.choice(["cansend", "cansend", "canread", "nvmread", "nvmwrite", "lssload", "lssstore", "paradef", "pdoveto"])
        if w == "pdoveto":
            return "fault pdoveto %d" % r.choice([0, 1])
        if w in ("nvmread", "nvmwrite"):
            return "fault %s %d %d" % (w, r.randint(1, 6), r.choice([1, 1, 3, 1000]))
        return "fault %s %d" % (w, r.randint(1, 8))

    def time(self):
        r = self.rng
        x = r.random()
        if x < 0.7:
            return "tick %d" % r.choice([1, 1, 2, 5, 10, 50, 100, 101, 1000])
        if x < 0.85:
            return "svc %d" % r.choice([1, 1, 2, 3, 10])
        if x < 0.95:
            return "tproc"
        return "proc"

    def step(self, weights=None):
        """One or more command lines."""
        r = self.rng
        w = weights or {"sdo": 22, "dialogue": 6, "nmt": 5, "hb": 8, "lss": 6, "rpdo": 6, "sync": 6, "csdo": 6, "other": 4,
                        "api": 16, "fault": 3, "time": 16}
        k = r.choices(list(w.keys()), list(w.values()))[0]
        if k == "dialogue":
            return self.sdo_dialogue()
        fn = {"sdo": self.sdo_frame, "nmt": self.nmt_frame, "hb": self.hb_frame, "lss": self.lss_frame, "rpdo": self.rpdo_frame,
              "sync": self.sync_frame, "csdo": self.csdo_resp_frame, "other": self.other_frame, "api": self.api,
              "fault": self.fault, "time": self.time}[k]
        return [fn()]

    def history(self, nsteps, weights=None):
        out = []
        r = self.rng
        # reach a chosen NMT state first
        pre = r.choice(["preop", "op", "op", "op", "stop", "init", "stopped"])
        if pre == "op":
            out.append("rx 0 2 01%02x" % self.node)
        elif pre == "stop":
            out.append("rx 0 2 02%02x" % self.node)
        elif pre == "stopped":
            out.append("stop")
        elif pre == "init":
            out.append("setmode 1")
        while len(out) < nsteps:
            out += self.step(weights)
        return out
