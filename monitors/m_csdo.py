"""C19 - every SDO client transfer completes exactly once and leaves nothing behind."""
import random
import framework as F
import sim as S
import gen
from sim import Config, var, W, R, P, A, N, D, RW

PROP = "C19"
LEVEL = "exploration"
RULE = ("sequences of 2..6 back-to-back SDO client transfers (upload / download, sizes 1..2000 incl. every size 1..600 once per direction, "
        "timeouts 5..500 ms and 65..131 s at 1 kHz, 65535 s .. 2^32 ms at 10 Hz, idle gaps; one or two clients (CO_CSDO_N = 2), the other client holding an open transfer) against a scripted reference server that is conforming, aborts / goes silent / answers late at step "
        "k (k over every step of the transfer), answers exactly around the expiry of the timeout with the timer event served but not yet processed (either outcome, exactly once), or sends wrong-toggle, wrong-multiplexer, wrong-kind, oversized (one segment too many, expedited or announced size larger than the user buffer) or early-end responses; "
        "checked per transfer: exactly one completion callback with the right code and tick, request frames equal to the reference "
        "client's (command, size, toggle, last marking, data), user buffer content (exact-size buffer under ASan), busy refusal, and after "
        "completion: client idle, no client timer left (pool occupancy), the next transfer unaffected; non-trivial = sequence with >= 1 "
        "segmented transfer or >= 1 injected server deviation; distinct by script")
ASSUMPTIONS = ["a timeout below one timer tick (also 0) expires with the next tick", "a timeout beyond the longest time the tick conversion supports (65535 s) is limited to 65535 s plus its milliseconds", "abort codes for locally detected protocol errors are not constrained (non-zero, exactly one callback)",
               "the upload buffer size equals the object size for conforming transfers", "processing follows each tick"]
VARIANTS = ["asan", "asan2"]

TIMEOUT_CODE = 0x05040000


def mux(idx, sub):
    return bytes([idx & 0xFF, idx >> 8, sub])


HUGE = [0, 50, 99, 100, 500, 65535000, 65535900, 65536000, 65536100, 65537000, 70000000, 131072100, 4294967200]


def ticks_of(ms, freq):
    """The 32-bit timeout in ms, limited to the longest time the conversion supports (65535 s plus the milliseconds)."""
    return max(1, min(ms // 1000, 65535) * freq + (ms % 1000) * freq // 1000)      # a time below the timer resolution lasts one tick


class Transfer:
    def __init__(self, rng, size=None, huge=False):
        self.up = rng.random() < 0.5
        self.idx, self.sub = rng.choice([0x2000, 0x2001, 0x6000]), rng.randrange(4)
        self.size = size if size else rng.choice([1, 2, 3, 4, 5, 6, 7, 8, 13, 14, 15, 100, 255, 256, 257, 263, 511, 889, 2000, rng.randint(1, 600)])
        self.data = gen.rand_bytes(rng, self.size)
        self.timeout = rng.choice([5, 10, 50, 100, 500])
        if self.size <= 14 and rng.random() < 0.04:
            self.timeout = rng.choice([65535, 65536, 70000, 131072 + 5])     # the API takes a 32-bit timeout in ms
        self.tticks = self.timeout          # 1 kHz timer: one tick per ms
        if huge:
            self.size = size if size else rng.choice([1, 4, 5, 8, 14])
            self.data = gen.rand_bytes(rng, self.size)
            self.timeout = rng.choice(HUGE)
            self.tticks = ticks_of(self.timeout, 10)
        self.cl = 0
        nsteps = 1 if self.size <= 4 else 1 + (self.size + 6) // 7
        self.nsteps = nsteps
        self.behaviour = rng.choice(["ok"] * 6 + ["abort", "abort", "silent", "late", "toggle", "mux", "kind", "early", "oversize", "race", "race", "nmtreset", "nosize", "stale-answer", "stopped", "nodestop"])
        if huge:
            self.behaviour = rng.choice(["silent", "silent", "late", "ok", "abort", "stopped", "race"])
        self.race_n = self.tticks + rng.choice([-1, 0, 0, 0, 1, 3])
        self.abort_code = rng.choice([0x06020000, 0x05040000, 0x05040000, 0x06010002, 0x08000000, 0x06070010, 0x05030000, 0x00000001, 0xFFFFFFFF])
        self.k = rng.randrange(nsteps)
        if self.behaviour == "nosize" and not (self.up and self.size <= 4):
            self.behaviour = "ok"
        if self.behaviour == "oversize" and self.size < 4 and self.up:
            self.behaviour = "exp-bigger"        # expedited answer carrying more bytes than the user buffer holds
        if self.behaviour == "oversize" and self.size > 4 and self.up and rng.random() < 0.5:
            self.behaviour = "announce-bigger"   # segmented answer announcing (and delivering) more bytes than the user buffer holds
        if self.behaviour in ("toggle", "early", "oversize") and self.size <= 4:
            self.behaviour = "ok"
        if self.behaviour == "toggle":
            self.k = max(1, self.k)


def run_sequence(res, exe, rng, first, forced=None, huge=False, two=False):
    srv = rng.choice([2, 5, 100])
    srv2 = rng.choice([3, 6, 101])
    nid = rng.choice([1, 9])
    bgc = rng.randrange(2) if (two and rng.random() < 0.6) else None      # a transfer on the other client stays open in the background
    cfg = Config(nodeid=nid, freq=10 if huge else 1000, tmrnum=rng.choice([2, 4, 16] if bgc is not None else [1, 1, 4, 16]))       # 1: the pool holds exactly the one timer the client needs
    gen.add_mandatory(cfg, hb=0, ssdo=1, ssdo_rw=False)
    gen.add_csdo(cfg, 0, server=srv)
    if two:
        gen.add_csdo(cfg, 1, server=srv2)
    cfg.finalize()
    sim = S.Sim(exe, cfg)
    TXs, RXs = [0x600 + srv, 0x600 + srv2], [0x580 + srv, 0x580 + srv2]
    TX, RX = TXs[0], RXs[0]
    cl = 0
    bg = None
    script = []
    ntr = forced if forced else [Transfer(rng, huge=huge) for _ in range(rng.randint(2, 6) if not huge else rng.randint(1, 3))]
    if two and not forced:
        for t_ in ntr:
            t_.cl = (1 - bgc) if bgc is not None else rng.randrange(2)
    interesting = False

    def fail(key, msg, exp=None, obs=None):
        res.violation("c19/" + key, msg + " | script: " + "; ".join(script[-6:]), sim=sim, expected=exp, observed=obs)
        return False

    rin = [False, 0]             # the completion callback resets the node (CONmtReset) / boot-up frames seen
    chained = [False, 0]         # a request inside the completion callback is armed / initiate frames of it seen

    def frames(evs):
        out = []
        for (t, cid, dlc, d, f) in S.txs(evs):
            if chained[0] and cid == TX and d == bytes([0x40, 0x00, 0x20, 0x01, 0, 0, 0, 0]) and S.cbs(evs, "csdoreq"):
                chained[1] += 1          # the initiate frame of an accepted chained request: judged by the chained-request rule below
                continue
            if rin[0] and cid == 0x700 + nid and d == b"\x00":
                rin[1] += 1              # boot-up frame of the reset the application requested inside the completion callback
                continue
            out.append((t, cid, d))
        return out

    foreign = []

    def callbacks(evs, every=False):
        out = [(int(c[1]), int(c[2], 16), int(c[3]), int(c[4], 16), int(c[5])) for c in S.cbs(evs, "csdo")]
        if not every:
            foreign.extend(c for c in out if c[0] != cl)
            out = [c for c in out if c[0] == cl]
        return out

    try:
        if bgc is not None:
            # the background transfer: a segmented upload whose server stays silent for an hour
            r, evs = sim.ret_ev("csdoup %d 2002 1 20 3600000" % bgc)
            if r != ["0"] or [(c, d) for (_, c, d) in frames(evs)] != [(TXs[bgc], bytes([0x40, 0x02, 0x20, 0x01, 0, 0, 0, 0]))]:
                return fail("request-frame/initiate", "background upload on client %d: returned %r, frames %r" % (bgc, r, frames(evs)))
            evs = sim.rx(RXs[bgc], bytes([0x41, 0x02, 0x20, 0x01, 20, 0, 0, 0]))
            if [(c, d) for (_, c, d) in frames(evs)] != [(TXs[bgc], bytes([0x60]) + bytes(7))] or callbacks(evs, True):
                return fail("request-frame/segment-up", "background upload on client %d: after the initiate answer frames %r callbacks %r" % (bgc, frames(evs), callbacks(evs, True)))
            bg = bgc
            script.append("client %d: segmented upload left open (server silent, timeout 1 h)" % bgc)
        for ti, tr in enumerate(ntr):
            if not huge:
                tr.tticks = tr.timeout         # 1 kHz timer (the timeout of a forced transfer may have been set after its construction)
            cl = tr.cl
            TX, RX = TXs[cl], RXs[cl]
            desc = "%s%s %04x:%d %d bytes timeout %d server=%s@%d" % ("client %d " % cl if two else "", "upload" if tr.up else "download", tr.idx, tr.sub, tr.size, tr.timeout, tr.behaviour, tr.k)
            script.append(desc)
            if tr.size > 4 or tr.behaviour != "ok":
                interesting = True
            res.counters["transfers"] += 1
            res.counters["beh_" + tr.behaviour] += 1
            m3 = mux(tr.idx, tr.sub)
            # in a quarter of the transfers the application starts a timer of its own inside the completion callback (a retry delay):
            # it must run - the finished transfer may not take anything with it (needs a pool slot: not with the one-timer pool)
            cbtimer = cfg.tmrnum > (2 if bg is not None else 1) and rng.random() < 0.25 and not huge
            if cbtimer:
                sim.cmd("csdocbtimer 20 7")
            # chained requests: in one transfer of ten the completion callback asks for the next transfer on the same client.  The
            # client may refuse it (it is still busy while it informs the application) or accept it - an accepted request is a
            # transfer like any other: exactly one callback (here: its timeout, nobody answers), nothing left behind
            cbreq = (not cbtimer) and rng.random() < 0.1 and not huge and not two
            chained[0], chained[1] = cbreq, 0
            if cbreq:
                sim.cmd("csdocbreq 30")
            # in one transfer of twelve the application resets the communication from inside the completion callback: that transfer
            # has ended - still exactly one callback - and the client is idle and usable afterwards
            rin[0], rin[1] = (not cbtimer and not cbreq and not two and not huge and tr.behaviour not in ("nmtreset", "stopped") and rng.random() < 0.08), 0
            if rin[0]:
                sim.cmd("resetin csdo %d" % rng.choice([1, 2]))
            if tr.up:
                r, evs = sim.ret_ev(("csdoup %d " % cl) + "%x %x %d %d" % (tr.idx, tr.sub, tr.size, tr.timeout))
            else:
                r, evs = sim.ret_ev(("csdodown %d " % cl) + "%x %x %s %d" % (tr.idx, tr.sub, tr.data.hex(), tr.timeout))
            if r != ["0"]:
                return fail("request-refused", desc + ": request returned %r on an idle client" % r)
            # busy client refuses further requests
            r2 = sim.ret("csdoup %d 2000 0 4 10" % cl)
            if r2 != [str(S.ERR["SDO_BUSY"])]:
                return fail("busy", desc + ": second request on a busy client returned %r" % r2)
            fr = frames(evs)
            # expected first request frame
            if tr.up:
                want = bytes([0x40]) + m3 + bytes(4)
            elif tr.size <= 4:
                want = bytes([0x23 | ((4 - tr.size) << 2)]) + m3 + (tr.data + bytes(4))[:4]
            else:
                want = bytes([0x21]) + m3 + tr.size.to_bytes(4, "little")
            if [(c, d) for (_, c, d) in fr] != [(TX, want)]:
                return fail("request-frame/initiate", desc + ": sent %r, reference %s" % ([("%x" % c, d.hex()) for _, c, d in fr], want.hex()))
            last_req_tick = sim.tick
            slow = (not huge) and tr.tticks >= 5 and tr.size <= 100 and rng.random() < 0.25
            step = 0
            done = None            # (code) once the model expects completion
            pos = 0
            tog = 0
            cbs_seen = []
            expect_code = None
            while True:
                # scripted server decides its answer for this step
                beh = tr.behaviour if (step == tr.k or tr.behaviour in ("exp-bigger", "announce-bigger")) else "ok"
                resp = None
                final_after = False
                cut = surplus = False
                if tr.up:
                    if tr.size <= 4:
                        resp = bytes([0x43 | ((4 - tr.size) << 2)]) + m3 + (tr.data + bytes(4))[:4]
                        final_after = True
                    elif step == 0:
                        resp = bytes([0x41]) + m3 + tr.size.to_bytes(4, "little")
                    else:
                        chunk = tr.data[pos:pos + 7]
                        last = pos + 7 >= tr.size
                        if beh == "early" and not last:
                            last = True
                            cut = True             # the server ends the transfer before the announced size is delivered
                        resp = bytes([(tog << 4) | ((7 - len(chunk)) << 1) | (1 if last else 0)]) + chunk + bytes(7 - len(chunk))
                        if beh == "oversize":
                            resp = bytes([(tog << 4) | 0]) + gen.rand_bytes(rng, 7)      # one more (non-final) segment than announced
                            last = False
                            surplus = tr.size - pos < 7      # this segment carries more data than the announced size leaves room for
                        pos += len(chunk)
                        final_after = last
                else:
                    if tr.size <= 4:
                        resp = bytes([0x60]) + m3 + bytes(4)
                        final_after = True
                    elif step == 0:
                        resp = bytes([0x60]) + m3 + bytes(4)
                    else:
                        resp = bytes([0x20 | (tog << 4)]) + bytes(7)
                        final_after = pos >= tr.size
                expect_code = 0
                if beh == "nmtreset":
                    # reset communication while the transfer runs: it ends there - exactly one callback with an abort code, nothing left
                    evs = sim.rx(0, bytes([130, nid]))
                    allcb = callbacks(evs, True)
                    cb = [c for c in allcb if c[0] == cl]
                    if bg is not None:
                        # the transfer left open on the other client ends as well: exactly one callback for it, with an abort code
                        ob = [c for c in allcb if c[0] == bg]
                        if len(ob) != 1 or ob[0][3] == 0 or (ob[0][1], ob[0][2]) != (0x2002, 1):
                            return fail("callback/reset-during-transfer", desc + ": reset communication: callbacks for the transfer open on client %d: %r, reference exactly one with an abort code" % (bg, ob))
                        res.counters["resets_with_two_busy_clients"] += 1
                        bg = None
                    elif len(allcb) != len(cb):
                        return fail("other-client/callback", desc + ": reset communication: callbacks %r" % allcb)
                    fr = [x for x in frames(evs) if x[1] != 0x700 + nid]
                    if len(cb) != 1 or cb[0][3] == 0 or cb[0][1] != tr.idx or cb[0][2] != tr.sub:
                        return fail("callback/reset-during-transfer", desc + ": reset communication at step %d: callbacks %r, reference exactly one with an abort code" % (step, cb))
                    if any(c not in TXs for (_, c, d) in fr):
                        return fail("request-frame/reset-during-transfer", desc + ": frames at the reset %r" % [("%x" % c, d.hex()) for _, c, d in fr])
                    res.counters["resets_during_transfer"] += 1
                    done = cb[0][3]
                    break
                if beh == "nodestop":
                    # the application stops the node (CONodeStop) while the transfer runs: it ends there - one callback with an abort code,
                    # no frame - and after CONodeInit / CONodeStart the client works like a fresh one
                    if two or huge:
                        beh = "ok"
                    else:
                        evs = sim.cmd("stop")
                        cb = callbacks(evs)
                        if len(cb) != 1 or cb[0][3] == 0 or cb[0][1] != tr.idx or cb[0][2] != tr.sub:
                            return fail("callback/node-stop-during-transfer", desc + ": CONodeStop at step %d: callbacks %r, reference exactly one with an abort code" % (step, cb))
                        if frames(evs):
                            return fail("request-frame/node-stop-during-transfer", desc + ": frames at CONodeStop %r" % frames(evs))
                        evs = sim.cmd("reinit") + sim.cmd("start")
                        if callbacks(evs):
                            return fail("callback/node-stop-during-transfer", desc + ": callbacks %r at the re-initialisation" % callbacks(evs))
                        res.counters["node_stops_during_transfer"] += 1
                        cbtimer = False          # (a timer the application started in that callback went with the re-initialisation of the pool)
                        done = cb[0][3]
                        break
                if beh == "stopped":
                    # the node is stopped while the transfer waits for its answer: the timeout still completes the transfer (once), but
                    # a stopped node sends nothing except heartbeats - no abort frame
                    sim.rx(0, bytes([2, nid]))
                    evs = sim.cmd("tick %d" % (tr.tticks + 3))
                    cb, fr = callbacks(evs), frames(evs)
                    sim.rx(0, bytes([128, nid]))
                    if [(c[3], c[4]) for c in cb] != [(TIMEOUT_CODE, last_req_tick + tr.tticks)]:
                        return fail("timeout/callback-stopped", desc + ": node stopped at step %d: callbacks %r, reference one with 0504 0000h at tick %d" % (step, cb, last_req_tick + tr.tticks))
                    # (whether the abort frame may still go out in STOPPED is the business of C09, which checks it)
                    if [x for x in fr if not (x[1] == TX and x[2] == bytes([0x80]) + m3 + TIMEOUT_CODE.to_bytes(4, "little"))]:
                        return fail("timeout/frame-in-stopped", desc + ": the stopped node transmitted %r" % [("%x" % c, d.hex()) for _, c, d in fr])
                    res.counters["timeouts_in_stopped"] += 1
                    done = TIMEOUT_CODE
                    break
                if beh == "stale-answer" and step == 0:
                    # the answer to an earlier (timed-out) request for another object arrives first: it is not the answer to this request
                    # (another object altogether, or another sub-index of the same index)
                    other = mux(tr.idx ^ 0x10, (tr.sub + 1) & 0xFF) if rng.random() < 0.5 else mux(tr.idx, (tr.sub + 1) & 0xFF)
                    stale = (bytes([0x43]) + other + gen.rand_bytes(rng, 4)) if tr.up else (bytes([0x60]) + other + bytes(4))
                    evs = sim.rx(RX, stale)
                    cb0 = callbacks(evs)
                    if cb0 and cb0[0][3] == 0:
                        return fail("callback/stale-answer", desc + ": an answer that names %s completed the transfer with code 0" % other.hex())
                    res.counters["stale_answers"] += 1
                    if cb0:
                        done = cb0[0][3]
                        break
                    if frames(evs):
                        return fail("request-frame/stale-answer", desc + ": client reacted to a foreign answer with %r" % frames(evs))
                if beh == "nosize" and step == 0:
                    # a conforming expedited answer without size indication (e = 1, s = 0)
                    resp = bytes([0x42]) + m3 + (tr.data + bytes(4))[:4]
                if beh == "abort":
                    # any abort code a server may send, incl. the server's own protocol timeout 0504 0000h
                    ac = tr.abort_code
                    resp = bytes([0x80]) + m3 + ac.to_bytes(4, "little")
                    expect_code, final_after = ac, True
                elif beh == "toggle":
                    resp = bytes([resp[0] ^ 0x10]) + resp[1:]
                    expect_code, final_after = "nonzero", True
                elif beh == "mux" and step == 0 and tr.size > 4:
                    # an initiate answer that names another object: the client ends the transfer with an abort code, or takes the
                    # frame for what it is - not the answer to its request - and runs into its timeout
                    bad = resp[:1] + mux(tr.idx ^ 1, tr.sub) + resp[4:]
                    evs = sim.rx(RX, bad)
                    cb = callbacks(evs)
                    if cb:
                        if len(cb) != 1 or cb[0][3] == 0:
                            return fail("callback/mux", desc + ": callbacks %r, reference one with a non-zero code" % cb)
                        done = cb[0][3]
                        break
                    if frames(evs):
                        return fail("request-frame/mux", desc + ": client continued after an answer for another object: %r" % frames(evs))
                    beh = "silent"
                elif beh == "mux":
                    beh = "ok"
                elif beh == "kind":
                    # an answer of the wrong transfer kind
                    if tr.up and tr.size <= 4:
                        resp = bytes([0x41]) + m3 + (100).to_bytes(4, "little")
                    elif tr.up:
                        resp = bytes([0x60]) + m3 + bytes(4)
                    else:
                        resp = bytes([0x43]) + m3 + bytes(4)
                    expect_code, final_after = "nonzero", True
                elif beh == "exp-bigger" and step == 0:
                    resp = bytes([0x43 | (rng.choice([0, 0, 1]) << 2)]) + m3 + gen.rand_bytes(rng, 4)
                    expect_code, final_after = "any", True
                elif beh == "announce-bigger" and step == 0:
                    resp = bytes([0x41]) + m3 + (tr.size + rng.choice([1, 7, 8, 1000])).to_bytes(4, "little")
                    expect_code = "any"
                elif beh == "announce-bigger":
                    # the server keeps delivering full segments beyond the user buffer
                    resp = bytes([(tog << 4)]) + gen.rand_bytes(rng, 7)
                    final_after = False
                    expect_code = "any"
                elif beh == "early":
                    # fewer bytes than announced: the buffer does not hold the object, so the transfer may not end as a success
                    expect_code = "nonzero" if cut else 0
                elif beh == "oversize":
                    # more bytes than announced: ends now, and not as a success (the client may tell the server with an abort frame)
                    expect_code = "nonzero" if surplus else "any"
                if beh in ("silent", "late"):
                    # no answer in time: timeout expected exactly tr.timeout ticks after the last request frame
                    evs = sim.cmd("tick %d" % (tr.tticks + 3))
                    fr = frames(evs)
                    cb = callbacks(evs)
                    want_fr = [(last_req_tick + tr.tticks, TX, bytes([0x80]) + m3 + TIMEOUT_CODE.to_bytes(4, "little"))]
                    if fr != want_fr:
                        return fail("timeout/frame", desc + ": bus frames %r, reference abort 0504 0000h at tick %d" % ([(t, "%x" % c, d.hex()) for t, c, d in fr], want_fr[0][0]))
                    if [(c[3], c[4]) for c in cb] != [(TIMEOUT_CODE, last_req_tick + tr.tticks)]:
                        return fail("timeout/callback", desc + ": callbacks %r, reference one with 0504 0000h at tick %d" % (cb, last_req_tick + tr.tticks))
                    if beh == "late":
                        evs = sim.rx(RX, resp)
                        if frames(evs) or callbacks(evs):
                            return fail("late-answer", desc + ": late answer caused %r / %r" % (frames(evs), callbacks(evs)))
                    done = TIMEOUT_CODE
                    break
                if tr.behaviour == "ok" and slow and beh == "ok":
                    # a slow server: every answer takes two thirds of the timeout - each one in time, all of them together longer than the
                    # timeout (the supervision restarts with every request frame)
                    evs0 = sim.cmd("tick %d" % max(1, (2 * tr.tticks) // 3))
                    if callbacks(evs0) or frames(evs0):
                        return fail("timeout/early", desc + ": while the server took %d ticks for its answer at step %d (timeout %d): callbacks %r frames %r" % (
                            max(1, (2 * tr.tticks) // 3), step, tr.tticks, callbacks(evs0), frames(evs0)))
                    res.counters["slow_answers"] += 1
                if beh == "race":
                    # the answer arrives around the expiry of the timeout: the tick interrupts have been served (the timeout event
                    # waits in the elapsed list), the answer is handled by CONodeProcess(), then the timer processing runs
                    evs = sim.cmd("svc %d" % tr.race_n) + sim.rx(RX, resp) + sim.cmd("tproc")
                    res.counters["race_steps"] += 1
                else:
                    evs = sim.rx(RX, resp)
                fr = frames(evs)
                cb = callbacks(evs)
                for iv in S.invs(evs):
                    return fail("inv", "invariant " + iv)
                if beh == "race" and any(c[3] == TIMEOUT_CODE for c in cb):
                    if len(cb) != 1:
                        return fail("callback-count/race", desc + ": answer at the expiry of the timeout (svc %d): callbacks %r, reference exactly one" % (tr.race_n, cb))
                    if tr.race_n < tr.tticks:
                        return fail("timeout/early", desc + ": answer %d ticks after the request was met with a timeout" % tr.race_n)
                    if (TX, bytes([0x80]) + m3 + TIMEOUT_CODE.to_bytes(4, "little")) not in [(c, d) for (_, c, d) in fr] or any(c != TX for (_, c, d) in fr):
                        return fail("timeout/frame", desc + ": timeout at the race step without abort frame: %r" % [("%x" % c, d.hex()) for _, c, d in fr])
                    res.counters["race_timeout_won"] += 1
                    done = TIMEOUT_CODE
                    break
                if beh == "race":
                    res.counters["race_answer_won"] += 1
                if final_after or expect_code in ("nonzero",) or (expect_code not in (0, None) and expect_code != "any"):
                    # completion expected now
                    if expect_code == "any":
                        if len(cb) != 1:
                            return fail("callback-count", desc + ": %d callbacks at the end, reference 1" % len(cb))
                    elif len(cb) != 1 or (expect_code == "nonzero" and cb[0][3] == 0) or (isinstance(expect_code, int) and cb[0][3] != expect_code):
                        return fail("callback/%s" % beh, desc + ": callbacks %r, reference one with code %s" % (cb, "%08x" % expect_code if isinstance(expect_code, int) else expect_code))
                    if cb[0][1] != tr.idx or cb[0][2] != tr.sub:
                        return fail("callback/mux", desc + ": callback names %04x:%d" % (cb[0][1], cb[0][2]))
                    # after the end of a transfer the client is silent; only for an error it detected itself may it send an abort to the server
                    local_error = expect_code == "nonzero" or expect_code == "any"
                    stray = [x for x in fr if not (local_error and x[1] == TX and x[2][0] == 0x80)]
                    if stray:
                        return fail("request-frame/after-end/%s" % beh, desc + ": client sent %r after the end of the transfer" % [("%x" % c, d.hex()) for _, c, d in stray])
                    done = cb[0][3]
                    break
                if cb:
                    if expect_code == "any":
                        done = cb[0][3]
                        break
                    return fail("callback/early", desc + ": callback %r in the middle of the transfer (step %d)" % (cb, step))
                # the client continues with its next request frame
                if tr.up:
                    want = bytes([0x60 | (tog << 4)]) + bytes(7) if step == 0 else None
                    if step > 0:
                        tog ^= 1
                        want = bytes([0x60 | (tog << 4)]) + bytes(7)
                else:
                    if step > 0:
                        tog ^= 1
                    chunk = tr.data[pos:pos + 7]
                    last = pos + 7 >= tr.size
                    want = bytes([(tog << 4) | ((7 - len(chunk)) << 1) | (1 if last else 0)]) + chunk + bytes(7 - len(chunk))
                    pos += len(chunk)
                got = [(c, d) for (_, c, d) in fr]
                if got != [(TX, want)]:
                    if expect_code == "any":
                        break
                    return fail("request-frame/%s" % ("segment-up" if tr.up else "segment-down"), desc + ": step %d: client sent %r, reference %s" % (
                        step, [("%x" % c, d.hex()) for c, d in got], want.hex()), want.hex(), [d.hex() for c, d in got])
                last_req_tick = sim.tick
                step += 1
                if step > 400:
                    return fail("progress", desc + ": no end")
            # after completion -------------------------------------------------------------
            if done is None:
                # 'any' behaviours may leave the transfer open until its timeout
                evs = sim.cmd("tick %d" % (tr.tticks + 3))
                cb = callbacks(evs)
                if len(cb) != 1:
                    return fail("callback-count", desc + ": %d callbacks until the timeout, reference 1" % len(cb))
                done = cb[0][3]
            if tr.up and done == 0 and tr.behaviour == "ok":
                buf = bytes.fromhex(sim.ret("csdobuf %d" % cl)[0].replace("-", ""))
                if buf != tr.data:
                    k = next((i for i in range(len(buf)) if buf[i] != tr.data[i]), len(buf))
                    return fail("buffer", desc + ": user buffer differs from the server's bytes at offset %d" % k, tr.data.hex()[:80], buf.hex()[:80])
            if cbreq:
                rq = int(sim.ret("csdocbreqres")[0])
                res.counters["requests_inside_completion_callback"] += 1
                chained[0] = False
                if rq != 0 and chained[1]:
                    return fail("callback/chained-request", desc + ": the request inside the completion callback was refused (%d) but its initiate frame went out" % rq)
                if rq == 0:
                    res.counters["requests_inside_completion_callback_accepted"] += 1
                    if chained[1] != 1:
                        return fail("callback/chained-request", desc + ": the request inside the completion callback was accepted, %d initiate frames seen" % chained[1])
                    evs = sim.cmd("tick 34")
                    cb = callbacks(evs)
                    if len(cb) != 1 or cb[0][3] != TIMEOUT_CODE:
                        return fail("callback/chained-request", desc + ": the request issued inside the completion callback was accepted; callbacks until its timeout: %r, reference exactly one with 0504 0000h" % (cb,))
            if rin[0]:
                if rin[1] != 1:
                    return fail("callback/reset-inside", desc + ": the completion callback reset the node: %d boot-up frames, reference 1" % rin[1])
                res.counters["resets_inside_completion_callback"] += 1
                rin[0] = False
            st = sim.state()
            if st["csdo%d" % cl].split(",")[0] != "1":
                return fail("not-idle", desc + ": client state %s after completion" % st["csdo%d" % cl])
            if bg is not None and st["csdo%d" % bg].split(",")[0] == "1":
                return fail("other-client/ended", desc + ": the transfer left open on client %d is gone (state %s), callbacks for it: %r" % (bg, st["csdo%d" % bg], foreign))
            if foreign:
                return fail("other-client/callback", desc + ": completion callbacks for the other client: %r" % foreign)
            occ = sim.occ()
            if occ["csdo"] != (1 if bg is not None else 0):
                return fail("timer-left", desc + ": %d SDO client timer(s) in the pool after completion, reference %d" % (occ["csdo"], 1 if bg is not None else 0))
            if cbtimer:
                if occ["app"] != 1:
                    return fail("callback-timer/deleted", desc + ": the timer the application started in the completion callback is gone (%d application timers in the pool)" % occ["app"])
                evs = sim.cmd("tick 21")
                if len(S.cbs(evs, "apptmr")) != 1 or callbacks(evs) or frames(evs):
                    return fail("callback-timer/not-run", desc + ": timer started in the completion callback (20 ticks): %d expiries within 21 ticks (reference 1), client callbacks %r frames %r" % (
                        len(S.cbs(evs, "apptmr")), callbacks(evs), frames(evs)))
                res.counters["timers_started_in_completion_callback"] += 1
            # idle gap: nothing may happen (no late second callback, no abort frame)
            gap = rng.choice([0, 1, 3, tr.tticks, tr.tticks + 2]) if tr.tticks < 200000 else rng.choice([0, 1, 3])
            if gap:
                evs = sim.cmd("tick %d" % gap)
                if callbacks(evs) or frames(evs):
                    return fail("after-effects", desc + ": %d ticks after completion: frames %r callbacks %r" % (gap, frames(evs), callbacks(evs)))
        res.evals += 1
        if interesting:
            res.nt(tuple(script))
        if first:
            res.sample({"server_node": srv, "transfers": script[:6]})
        return True
    except S.SimDied as e:
        res.violation("c19/crash/" + e.signature, "executor died: " + e.signature, sim=sim, detail=e.detail[-2000:])
        return False
    finally:
        sim.close()


def plan(tier, seed):
    q = tier == "quick"
    items = [("seq", i, 30 if q else 300) for i in range(48 if q else 170)]
    items += [("sizes", i, 0) for i in range(0, 600, 40 if q else 10)]
    items += [("faultk", i, 0) for i in range(8 if q else 32)]
    items += [("two", i, 25 if q else 250) for i in range(16 if q else 64)]
    items += [("huge", i, 1 if q else 4) for i in range(16 if q else 64)]
    return items


def work(item, ctx):
    res = F.Res()
    exe = ctx["exes"]["asan"]
    if item[0] == "seq":
        for h in range(item[2]):
            rng = random.Random(F.seed_for(ctx["seed"], "C19", item[1], h))
            if not run_sequence(res, exe, rng, item[1] == 0 and h == 0):
                break
    elif item[0] == "two":
        # two SDO clients (CO_CSDO_N = 2): transfers on either client, in most sequences while a transfer on the other client stays open
        for h in range(item[2]):
            rng = random.Random(F.seed_for(ctx["seed"], "C19two", item[1], h))
            if not run_sequence(res, ctx["exes"]["asan2"], rng, False, two=True):
                break
    elif item[0] == "huge":
        # timeouts around and beyond the longest supported time (65535 s), 10 Hz timer: up to 4.3e7 ticks per silent step
        for h in range(item[2]):
            rng = random.Random(F.seed_for(ctx["seed"], "C19huge", item[1], h))
            if not run_sequence(res, exe, rng, False, huge=True):
                break
            res.counters["huge_timeout_sequences"] += 1
    elif item[0] == "sizes":
        step = 40 if ctx["tier"] == "quick" else 10
        rng = random.Random(F.seed_for(ctx["seed"], "C19s", item[1]))
        for size in range(item[1] + 1, item[1] + step + 1):
            for up in (True, False):
                a = Transfer(rng, size); a.up = up; a.behaviour = "ok"
                b = Transfer(rng, 4); b.behaviour = "ok"
                if not run_sequence(res, exe, rng, False, forced=[a, b]):
                    return res
    else:
        # server deviation at every step k of transfers of <= 10 segments
        rng = random.Random(F.seed_for(ctx["seed"], "C19k", item[1]))
        for beh in ("abort", "silent", "late", "toggle"):
            size = rng.choice([5, 8, 20, 50, 70])
            n = 1 + (size + 6) // 7
            for k in range(n):
                for up in (True, False):
                    a = Transfer(rng, size); a.up = up; a.behaviour = beh; a.k = k
                    if beh == "toggle" and k == 0:
                        continue
                    b = Transfer(rng, rng.choice([2, 30])); b.behaviour = "ok"; b.timeout = 500
                    if not run_sequence(res, exe, rng, False, forced=[a, b]):
                        return res
    return res


def selftest(ctx):
    rng = random.Random(1)
    t = Transfer(rng, 263)
    assert t.nsteps == 1 + 38


def finish(total, tier):
    c = total.counters
    p = []
    if c["transfers"] < 2000 or c["beh_silent"] < 20 or c["beh_abort"] < 20:
        p.append("too few transfers / deviations: %r" % dict(c))
    if c["resets_inside_completion_callback"] < 50:
        p.append("only %d resets from inside the completion callback" % c["resets_inside_completion_callback"])
    if c["resets_with_two_busy_clients"] < 10 or c["huge_timeout_sequences"] < 8:
        p.append("too few resets with two busy clients (%d) / sequences with huge timeouts (%d)" % (c["resets_with_two_busy_clients"], c["huge_timeout_sequences"]))
    return p


def replay(case, ctx):
    return F.replay_log(case, ctx)
