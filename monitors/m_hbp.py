"""C10 - heartbeat producer period and content."""
import random
import framework as F
import sim as S
import gen
from sim import Config, var, W, R, P, A, N, D, RW

PROP = "C10"
LEVEL = "exploration"
RULE = ("histories mixing ticks, NMT commands incl. resets, writes of 1017h through SDO and CODictWrWord (also while the expired heartbeat event is served but not yet processed), and every other timer user "
        "(TPDO inhibit/event times and triggers, SYNC producer on/off/re-timed, application timers, monitored heartbeats) over heartbeat "
        "times x timer frequencies; the (tick, identifier, dlc, data) heartbeat emissions are compared tick by tick with the reference "
        "schedule; non-trivial = history with >= 3 heartbeats and >= 1 write or NMT change; distinct by script")
ASSUMPTIONS = ["processing follows each tick", "only heartbeat times that are a whole number of ticks are generated",
               "after boot-up / reset the phase is open: first heartbeat within one period, then exactly periodic (DESIGN.md A.4)"]
VARIANTS = ["asan"]

INIT, PREOP, OP, STOP = 1, 2, 3, 4
CODE = {PREOP: 127, OP: 5, STOP: 4}


def make_cfg(rng):
    nid = rng.choice([1, 3, 127])
    freq = rng.choice([100, 1000, 1000, 10000, 1500, 2500, 32768])      # incl. clocks that are no multiple of 1 kHz
    ms_choices = [m for m in (10, 20, 30, 50, 100, 250, 1000, 1, 5, 2, 4, 6, 125, 500) if (m * freq) % 1000 == 0 and m * freq // 1000 <= 40000]
    hb0 = rng.choice([0] + ms_choices)
    cfg = Config(nodeid=nid, freq=freq, tmrnum=16)
    # optional objects (1005h/1006h, 1016h, 1014h) are missing in some dictionaries
    lean = rng.random() < 0.3
    gen.add_mandatory(cfg, hb=hb0, sync_id=0x80, sync_cycle=0 if not (lean and rng.random() < 0.7) else None, emcy_id=0x80, ssdo=1, ssdo_rw=False,
                      with1005=not (lean and rng.random() < 0.7), with1014=not (lean and rng.random() < 0.5))
    if not (lean and rng.random() < 0.7):
        gen.add_hbcons(cfg, [(9, rng.choice([0, 40, 100]))])
    cfg.add(var(0x2001, 0, RW | P | A, 1, 1))
    cfg.add(var(0x2001, 1, RW | P | A, 2, 2))
    gen.add_tpdo(cfg, 0, 0x40000180, 254, rng.choice([0, 100, 500]), rng.choice([0, 20, 100]), [gen.maplink(0x2001, 0, 8)])
    gen.add_tpdo(cfg, 1, 0x40000280, 255, rng.choice([0, 200]), rng.choice([0, 50]), [gen.maplink(0x2001, 1, 16)])
    if rng.random() < 0.5:
        # 1017h stored in the object entry itself (direct storage) instead of in a variable
        o = cfg.get(0x1017, 0)
        cfg.objs[cfg.objs.index(o)] = var(0x1017, 0, D | RW, 2, hb0, "hbprod")
        cfg._index = None
    cfg.finalize()
    return cfg, nid, freq, hb0, ms_choices


class HbModel:
    def __init__(self, nid, freq, hb_ms):
        self.nid, self.freq = nid, freq
        self.mode = INIT
        self.P = hb_ms * freq // 1000
        self.base = None              # phase known: emissions at base + k*P
        self.unknown_since = 0        # phase open since this tick (init / reset)
        self.allowed_since = None
        self.count = 0

    def set_mode(self, mode, tick):
        ok_old = self.mode in CODE
        self.mode = mode
        if mode in CODE and not ok_old:
            self.allowed_since = tick
        if mode not in CODE:
            self.allowed_since = None

    def on_write(self, ms, tick):
        self.P = ms * self.freq // 1000
        self.base = tick
        self.unknown_since = None

    def on_reset(self, tick):
        self.base = None
        self.unknown_since = tick

    def check_ticks(self, t0, t1, emitted):
        """emitted: {tick: [data,...]} for ticks t0+1..t1. Returns error string or None."""
        for t in range(t0 + 1, t1 + 1):
            got = emitted.get(t, [])
            allowed = self.mode in CODE
            if len(got) > 1:
                return "tick %d: %d heartbeats in one tick" % (t, len(got))
            if got and not allowed:
                return "tick %d: heartbeat in a state that does not allow it" % t
            if got and got[0] != bytes([CODE[self.mode]]):
                return "tick %d: heartbeat carries %s, node state code is %d" % (t, got[0].hex(), CODE[self.mode])
            if self.P == 0:
                if got:
                    return "tick %d: heartbeat although 1017h is 0" % t
                continue
            if self.base is not None:
                due = (t - self.base) % self.P == 0 and t > self.base
                if due and allowed and not got:
                    return "tick %d: heartbeat missing (period %d ticks counted from tick %d)" % (t, self.P, self.base)
                if got and not due:
                    return "tick %d: heartbeat off schedule (period %d ticks counted from tick %d)" % (t, self.P, self.base)
            else:
                if got:
                    if t - max(self.unknown_since, self.allowed_since or 0) > self.P:
                        return "tick %d: first heartbeat %d ticks after the (re)start, period is %d" % (t, t - max(self.unknown_since, self.allowed_since or 0), self.P)
                    self.base = t
                elif allowed and self.allowed_since is not None and t - max(self.unknown_since, self.allowed_since) >= self.P + 0 and t - self.unknown_since >= self.P and t - self.allowed_since >= self.P:
                    return "tick %d: no heartbeat within one period (%d ticks) after the (re)start at tick %d" % (t, self.P, self.unknown_since)
            if got:
                self.count += 1
        return None


def run_history(res, exe, rng, hidx):
    cfg, nid, freq, hb0, ms_choices = make_cfg(rng)
    sim = S.Sim(exe, cfg, start=False)
    m = HbModel(nid, freq, hb0)
    script = []
    nwrites = nmode = 0
    apptmr = []

    def fail(key, msg):
        res.violation("c10/" + key, "node %d, %d Hz, 1017h=%d ms: %s" % (nid, freq, hb0, msg), sim=sim)

    try:
        def do(cmdline):
            script.append(cmdline)
            t0 = sim.tick
            evs = sim.cmd(cmdline)
            return t0, evs

        def observe(t0, evs, step_is_boot=False):
            emitted = {}
            for (t, cid, dlc, d, f) in S.txs(evs):
                if cid == 0x700 + nid:
                    if d == b"\x00" and step_is_boot:
                        continue
                    if dlc != 1:
                        return "heartbeat with DLC %d" % dlc
                    emitted.setdefault(t, []).append(d)
            for iv in S.invs(evs):
                return "invariant " + iv
            # frames emitted in a non-tick step carry the current tick: they are checked as belonging to no tick
            if sim.tick == t0:
                if emitted:
                    return "heartbeat emitted outside timer processing (step at tick %d)" % t0
                return None
            return m.check_ticks(t0, sim.tick, emitted)

        if ms_choices and rng.random() < 0.1:
            # power-up with an application that sets its heartbeat time when it is told that the node initialises (API call inside the
            # mode change callback, before the object entries are initialised): one producer, with the time 1017h then holds
            ms0 = rng.choice(ms_choices)
            do("initcb 1017 0 %d" % ms0); do("restart"); do("initcb 0")
            m.__init__(nid, freq, ms0)
            res.counters["heartbeat_time_set_in_init_notification"] += 1
        t0, evs = do("start")
        m.set_mode(PREOP, sim.tick)
        err = observe(t0, evs, True)
        if err:
            fail("schedule/start", err); return
        nsteps = rng.choice([30, 60, 120])
        if ms_choices and rng.random() < 0.12:
            # scripted opening: timers of another service are stopped right before the heartbeat producer (re)starts, then that service
            # becomes active again - a timer id that is handed from one owner to the next must not be used by the old owner
            p_ms = rng.choice([m_ for m_ in ms_choices if m_ * freq // 1000 >= 2] or ms_choices)
            k = rng.randrange(2)
            for step in (("nmt", 1), ("hb", 0), ("ev", k, rng.choice([10, 40])), ("tick", 3), ("ev", k, 0), ("hb", p_ms),
                         rng.choice([("trig", k), ("ev", k, 10), ("nmt2",), ("trig", k)]), ("tick", 3 * (p_ms * freq // 1000) + 2)):
                t0 = sim.tick
                if step[0] == "nmt":
                    t0, evs = do("rx 0 2 01%02x" % nid); m.set_mode(OP, sim.tick); nmode += 1
                elif step[0] == "nmt2":
                    t0, evs = do("rx 0 2 80%02x" % nid); m.set_mode(PREOP, sim.tick)
                    err = observe(t0, evs, False)
                    if err:
                        fail("schedule/scripted", err); return
                    t0, evs = do("rx 0 2 01%02x" % nid); m.set_mode(OP, sim.tick)
                elif step[0] == "hb":
                    script.append("sdo write 1017 = %d" % step[1])
                    code, evs = S.sdo_write(sim, nid, 0x1017, 0, step[1], 2)
                    if code is not None:
                        fail("write-refused", "SDO write of %d ms to 1017h refused: %r" % (step[1], code)); return
                    m.on_write(step[1], sim.tick); nwrites += 1
                elif step[0] == "ev":
                    script.append("sdo write 180%d:5 = %d" % (step[1], step[2]))
                    code, evs = S.sdo_write(sim, nid, 0x1800 + step[1], 5, step[2], 2)
                elif step[0] == "trig":
                    t0, evs = do("trigpdo %d" % step[1])
                else:
                    t0, evs = do("tick %d" % step[1])
                err = observe(t0, evs, False)
                if err:
                    fail("schedule/scripted", err + " | script tail: " + "; ".join(script[-8:])); return
            res.counters["scripted_timer_handover_openings"] += 1
        for i in range(nsteps):
            x = rng.random()
            boot = False
            if x < 0.45:
                t0, evs = do("tick %d" % rng.choice([1, 2, 3, 7, 10, 25, 60, 130]))
            elif x < 0.57:
                cs = rng.choice([1, 2, 128, 129, 130, 1, 128])
                old = m.mode
                t0, evs = do("rx 0 2 %02x%02x" % (cs, rng.choice([nid, 0])))
                if old in CODE:
                    nmode += 1
                    if cs == 1: m.set_mode(OP, sim.tick)
                    elif cs == 2: m.set_mode(STOP, sim.tick)
                    elif cs == 128: m.set_mode(PREOP, sim.tick)
                    else:
                        m.set_mode(INIT, sim.tick); m.set_mode(PREOP, sim.tick); m.on_reset(sim.tick); boot = True
            elif x < 0.67:
                ms = rng.choice([0] + ms_choices)
                bad = [b for b in (1, 3, 5, 9) if 0 < b * freq < 1000]
                if bad and rng.random() < 0.3:
                    # a time the timer cannot resolve (below one tick): the write is refused and changes nothing - the heartbeat goes on
                    ms = rng.choice(bad)
                    if m.mode in (PREOP, OP) and rng.random() < 0.6:
                        script.append("sdo write 1017 = %d (below one tick)" % ms)
                        t0 = sim.tick
                        code, evs = S.sdo_write(sim, nid, 0x1017, 0, ms, 2)
                        refused = code is not None
                    else:
                        t0, evs = do("wr 1017 0 2 %x" % ms)
                        r = [e for e in evs if e[0] == "ret"]
                        refused = bool(r) and r[0][1] != "0"
                    if not refused:
                        fail("write-accepted/unresolvable", "write of %d ms to 1017h at %d Hz (less than one tick) was accepted" % (ms, freq)); return
                    r = sim.ret("rd 1017 0 2")
                    res.counters["unresolvable_writes_refused"] += 1
                    err = observe(t0, evs, False)
                    if err:
                        fail("schedule/refused-write", err + " | script tail: " + "; ".join(script[-6:])); return
                    continue
                fill = []
                if m.P > 0 and rng.random() < 0.12:
                    # the timer pool is completely in use at the moment of the write (application timers take every free block): the
                    # running heartbeat gives its block back, so the new period starts all the same
                    while len(fill) < 40:
                        r = sim.ret("tmrcreate 60000 0 %d" % (16 + len(fill)))
                        if r is None or int(r[0]) < 0:
                            break
                        fill.append(int(r[0]))
                    script.append("pool filled with %d application timers" % len(fill))
                    res.counters["writes_with_full_pool"] += 1
                if m.mode in (PREOP, OP) and rng.random() < 0.6:
                    script.append("sdo write 1017 = %d" % ms)
                    t0 = sim.tick
                    code, evs = S.sdo_write(sim, nid, 0x1017, 0, ms, 2)
                    if code is not None:
                        fail("write-refused", "SDO write of %d ms to 1017h refused: %r" % (ms, code)); return
                else:
                    t0, evs = do("wr 1017 0 2 %x" % ms)
                    r = [e for e in evs if e[0] == "ret"]
                    if not r or r[0][1] != "0":
                        fail("write-refused", "CODictWrWord(1017h, %d) failed: %r" % (ms, r)); return
                for id_ in fill:
                    sim.cmd("tmrdelete %d" % id_)
                m.on_write(ms, sim.tick)
                nwrites += 1
            elif x < 0.70:
                # write of 1017h while the expired heartbeat event is served but not yet processed (tick interrupt before the
                # background loop reaches the timer processing): the pending heartbeat may still go out in that processing step
                # (it fell due on this tick), but from the write on only the new period counts
                if not (m.mode in CODE and m.base is not None and m.P > 0 and m.mode in (PREOP, OP)):
                    continue
                d = m.P - ((sim.tick - m.base) % m.P)
                if d > 300:
                    continue
                ms = rng.choice([0] + ms_choices)
                t0, evs = do("svc %d" % d)
                if any(cid == 0x700 + nid for (t, cid, dlc, dd, f) in S.txs(evs)):
                    fail("schedule/deferred", "heartbeat sent by the tick service itself"); return
                T = sim.tick
                if rng.random() < 0.5:
                    script.append("sdo write 1017 = %d" % ms)
                    code, evs = S.sdo_write(sim, nid, 0x1017, 0, ms, 2)
                    if code is not None:
                        fail("write-refused", "SDO write of %d ms to 1017h refused: %r" % (ms, code)); return
                else:
                    _, evs = do("wr 1017 0 2 %x" % ms)
                _, evs2 = do("tproc")
                for e in evs + evs2:
                    if e[0] == "cb" and e[1] == "apptmr":
                        apptmr[:] = [a for a in apptmr if not (a[1] == int(e[2]) and a[2] == 0)]
                hb = [(t, dd) for (t, cid, dlc, dd, f) in S.txs(evs + evs2) if cid == 0x700 + nid]
                if len(hb) > 1 or any(t != T or dd != bytes([CODE[m.mode]]) for t, dd in hb):
                    fail("schedule/deferred-write", "write of 1017h=%d ms with the expired heartbeat event pending (tick %d): heartbeats %r | script tail: %s" % (
                        ms, T, [(t, dd.hex()) for t, dd in hb], "; ".join(script[-6:]))); return
                m.count += len(hb)
                m.on_write(ms, T)
                nwrites += 1
                res.counters["writes_with_pending_event"] += 1
                res.counters["pending_heartbeat_still_sent"] += len(hb)
                continue
            elif x < 0.75:
                # PDO / SYNC reconfiguration through SDO
                if m.mode in (PREOP, OP):
                    what = rng.choice(["inhibit", "event", "sync-on", "sync-off", "cycle"])
                    t0 = sim.tick
                    if what == "inhibit":
                        code, evs = S.sdo_write(sim, nid, 0x1800 + rng.randrange(2), 3, rng.choice([0, 100, 300]), 2)
                    elif what == "event":
                        code, evs = S.sdo_write(sim, nid, 0x1800 + rng.randrange(2), 5, rng.choice([0, 10, 40, 100]), 2)
                    elif what == "sync-on":
                        S.sdo_write(sim, nid, 0x1006, 0, rng.choice([10000, 50000, 100000]), 4)
                        code, evs = S.sdo_write(sim, nid, 0x1005, 0, 0x40000080, 4)
                    elif what == "sync-off":
                        code, evs = S.sdo_write(sim, nid, 0x1005, 0, 0x80, 4)
                    else:
                        code, evs = S.sdo_write(sim, nid, 0x1006, 0, rng.choice([10000, 20000, 100000]), 4)
                    script.append("sdo reconfigure " + what)
                else:
                    continue
            elif x < 0.83:
                t0, evs = do(rng.choice(["trigpdo 0", "trigpdo 1", "wr 2001 0 1 %x" % rng.getrandbits(8), "wr 2001 1 2 %x" % rng.getrandbits(16)]))
            elif x < 0.91:
                # application timers; the application only deletes timers it still owns (expired one-shots are forgotten)
                if len(apptmr) < 4 and rng.random() < 0.6:
                    tag = next(k for k in range(8) if k not in [a[1] for a in apptmr])
                    cyc = rng.choice([0, 0, 5, 10])
                    t0, evs = do("tmrcreate %d %d %d" % (rng.choice([1, 3, 10, 10]), cyc, tag))
                    r = [e for e in evs if e[0] == "ret"]
                    if r and int(r[0][1]) >= 0:
                        apptmr.append((int(r[0][1]), tag, cyc))
                elif apptmr:
                    t0, evs = do("tmrdelete %d" % apptmr.pop(rng.randrange(len(apptmr)))[0])
                else:
                    continue
            else:
                t0, evs = do("rx 709 1 %02x" % rng.choice([5, 127, 4]))
            for e in evs:
                if e[0] == "cb" and e[1] == "apptmr":
                    apptmr[:] = [a for a in apptmr if not (a[1] == int(e[2]) and a[2] == 0)]
            err = observe(t0, evs, boot)
            if err:
                fail("schedule/" + ("after-write" if m.unknown_since is None else "after-reset"), err + " | script tail: " + "; ".join(script[-6:]))
                return
        res.evals += 1
        res.counters["heartbeats"] += m.count
        res.counters["writes_1017"] += nwrites
        res.counters["nmt_changes"] += nmode
        if m.count >= 3 and (nwrites or nmode):
            res.nt(tuple(script))
        if hidx == 0:
            res.sample({"node": nid, "freq": freq, "hb_ms": hb0, "script_head": script[:14], "heartbeats": m.count})
    except S.SimDied as e:
        res.violation("c10/crash/" + e.signature, "executor died: " + e.signature, sim=sim, detail=e.detail[-2000:])
    finally:
        sim.close()


def plan(tier, seed):
    q = tier == "quick"
    return [("hist", i, 40 if q else 400) for i in range(48 if q else 400)]


def work(item, ctx):
    res = F.Res()
    _, idx, n = item
    for h in range(n):
        rng = random.Random(F.seed_for(ctx["seed"], "C10", idx, h))
        run_history(res, ctx["exes"]["asan"], rng, h if idx == 0 else 1)
    return res


def selftest(ctx):
    m = HbModel(1, 1000, 10)
    m.set_mode(PREOP, 0)
    m.on_write(10, 0)
    assert m.check_ticks(0, 10, {10: [bytes([127])]}) is None
    assert m.check_ticks(10, 20, {19: [bytes([127])]}) is not None       # shifted
    m2 = HbModel(1, 1000, 10); m2.set_mode(PREOP, 0); m2.on_write(10, 0)
    assert m2.check_ticks(0, 10, {}) is not None                          # suppressed
    m3 = HbModel(1, 1000, 10); m3.set_mode(OP, 0); m3.on_write(10, 0)
    assert m3.check_ticks(0, 10, {10: [bytes([127])]}) is not None        # wrong state byte


def finish(total, tier):
    p = []
    if total.counters["heartbeats"] < 2000:
        p.append("only %d heartbeats observed" % total.counters["heartbeats"])
    return p


def replay(case, ctx):
    return F.replay_log(case, ctx)
