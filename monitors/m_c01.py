"""C01 - no frame, tick or driver-fault sequence corrupts memory or crashes.

Oracles: ASan/UBSan report, harness canaries, CONodeFatalError callback,
invariant walkers, CPU-time step watchdog, frames-per-received-frame bound.
"""
import random, os
import framework as F
import sim as S
import hostile as H
import gen

PROP = "C01"
LEVEL = "exploration"
RULE = ("hostile-grammar histories (frames for every identifier the node listens to, all SDO command bytes, mutated "
        "multi-frame SDO dialogues, ticks, API calls, driver faults) on generated dictionaries and builds, plus enumerated block downloads around the transfer-buffer boundary (sizes 875..896 / 1771..1779 x announced size x extra segments x last flag x end n) an enumerated "
        "SDO server-state x command-byte x payload sweep, and two-frame cycles (every command byte x 3 objects x 3 size fields, followed by each of 17 continuation frames, segment frames also with alternating toggle bit) and short random sequences repeated 150..900 times without reset (cumulative cursor drift); a history counts as non-trivial if it executed >= 20 steps and "
        "produced >= 1 transmitted frame or callback; distinct = different command script")
ASSUMPTIONS = [
    "API preconditions respected by the workload: emergency index < table length, buffer API only on strings/domains, "
    "node ids 1..127/255, dictionary sorted/unique/end-marked with storage width matching the type; the application (API) writes only objects that carry the write flag",
    "termination is restated as: each step finishes within 2 s of process CPU time",
    "bounded history length (30..300 steps); CO_NODE zero-filled except in the junk-fill configuration sample",
]
VARIANTS = ["asan", "asan2", "msan", "lean", "asanp", "asanq",
            ("casan", ("cosim.c",), "cosim", {"thorough_only": True}),
            ("plain", ("cosim.c",), "cosim", {"thorough_only": True})]

MAXFRAMES = 127 + 4 + 2

SWEEP_STATES = ["idle", "segdn", "segup", "blkdn", "dnwait", "blkupwait", "blkupsent", "blkuprep"]


def check_step(res, sim, cmd, evs):
    """Apply the per-step oracles; returns True if a violation was recorded."""
    bad = False
    ntx = 0
    for e in evs:
        t = e[0]
        if t == "inv":
            res.violation("inv/" + e[1], "invariant walker: " + " ".join(e[1:]) + " after '" + cmd[:60] + "'", sim=sim)
            bad = True
        elif t == "cb" and e[1] == "fatal":
            res.violation("fatal/" + cmd.split()[0], "CONodeFatalError called during '" + cmd[:60] + "'", sim=sim)
            bad = True
        elif t == "tx":
            ntx += 1
    if cmd.startswith("rx") and ntx > MAXFRAMES:
        res.violation("frames/unbounded", "%d frames sent while processing one received frame" % ntx, sim=sim)
        bad = True
    return bad


def run_history(res, exe, cfg, lines, tag, valgrind=False, count=True):
    sim = None
    try:
        sim = S.Sim(exe, cfg, valgrind=valgrind)
        out = 0
        for evs0, c0 in ((sim.init_events, "init"), (sim.start_events, "start")):
            check_step(res, sim, c0, evs0)
        i = 0
        while i < len(lines):
            part = lines[i:i + 64]
            allev = sim.batch(part)
            for c, evs in zip(part, allev):
                out += len(evs)
                res.counters["steps"] += 1
                res.counters["ev_" + c.split()[0]] += 1
                for e in evs:
                    if e[0] == "tx":
                        res.counters["tx_frames"] += 1
                    elif e[0] == "cb":
                        res.counters["cb_" + e[1]] += 1
                if check_step(res, sim, c, evs):
                    return
            i += 64
        st = sim.state()
        if st:
            res.states.add((st["mode"], st["sdo0"].split(",")[0], st["sdo0"].split(",")[1], st["lss"].split(",")[0], st["csdo0"].split(",")[0]))
        if count and len(lines) >= 20 and out > 0:
            res.nt(tag, tuple(lines[:40]))
    except S.SimDied as e:
        key = "crash/" + e.signature
        res.counters["executor_deaths"] += 1
        res.violation(key, "executor died with %s" % e.signature, sim=sim, detail=e.detail[-2500:])
    finally:
        if sim:
            sim.close()


def sweep_prefix(state, h):
    """Commands that drive SDO server 0 into a protocol state (object 2020:9, a domain >= 1778 bytes)."""
    rid = 0x600 + h.node
    m = bytes([0x20, 0x20, 9])
    f = lambda b: "rx %x 8 %s" % (rid, (bytes(b) + bytes(8))[:8].hex())
    if state == "idle":
        return []
    if state == "segdn":
        return [f(bytes([0x21]) + m + (20).to_bytes(4, "little"))]
    if state == "segup":
        return [f(bytes([0x40]) + m)]
    if state == "blkdn":
        return [f(bytes([0xC6]) + m + (100).to_bytes(4, "little")), f(bytes([1, 1, 2, 3, 4, 5, 6, 7]))]
    if state == "dnwait":
        return [f(bytes([0xC6]) + m + (7).to_bytes(4, "little")), f(bytes([0x81, 1, 2, 3, 4, 5, 6, 7]))]
    if state == "blkupwait":
        return [f(bytes([0xA0]) + m + bytes([4]))]
    if state == "blkupsent":
        return [f(bytes([0xA0]) + m + bytes([4])), f(bytes([0xA3]))]
    if state == "blkuprep":
        return [f(bytes([0xA0]) + m + bytes([4])), f(bytes([0xA3])), f(bytes([0xA2, 2, 4]))]
    raise ValueError(state)


def sweep_payloads(cmd, rng):
    m = bytes([0x20, 0x20, 9])
    return [bytes([cmd]) + bytes(7),
            bytes([cmd]) + m + (5).to_bytes(4, "little"),
            bytes([cmd, 0x00, 0x20, 2, 0x78, 0x56, 0x34, 0x12]),
            bytes([cmd]) + b"\xff" * 7,
            bytes([cmd, 1, 2, 0, 0, 0, 0, 0]),
            bytes([cmd]) + bytes(rng.getrandbits(8) for _ in range(7))]


def plan(tier, seed):
    items = []
    nh = 400 if tier == "quick" else 240000
    per = 20
    for i in range(nh // per):
        variant = "asan2" if i % 3 == 2 else "asan"
        if tier == "thorough" and i % 10 == 9:
            variant = "casan"
        if i % 5 == 4:
            variant = "msan"          # MemorySanitizer build: use of uninitialised values, frames carrying uninitialised bytes
        if i % 10 in (1, 3, 7):
            # compile-time configurations off the default: no LSS slave / SDO client; CO_RPDO_N=2, CO_TPDO_N=6; CO_RPDO_N=5, CO_TPDO_N=3
            # (the generated dictionaries keep their four PDO records per direction: surplus records are plain objects)
            variant = {1: "lean", 3: "asanp", 7: "asanq"}[i % 10]
        items.append(("fuzz", variant, i, per))
    if tier == "thorough":
        for i in range(12):
            items.append(("fuzz-valgrind", "plain", 100000 + i, 6))
    # enumerated buffer-boundary block downloads (complete in both tiers)
    for lo in range(0, 18, 3):
        items.append(("boundary", "asan", lo, 3))
    for i in range(6):
        items.append(("hbcgap", "asan", i))
    for i in range(8):
        items.append(("blkrepeat", "asan", i))
    # enumerated two-frame cycles repeated without reset: cumulative drift of a buffer cursor or counter (complete in both tiers)
    for c0 in range(0, 256, 8):
        items.append(("pairloop", "asan", c0, 8, 150 if tier == "quick" else 900))
    if tier == "thorough":
        for i in range(64):
            items.append(("cycle", "asan2" if i % 4 == 3 else "asan", i, 40))
    else:
        for i in range(16):
            items.append(("cycle", "asan", i, 6))
    # enumerated state x command sweep (complete in both tiers)
    for st in SWEEP_STATES:
        for c0 in range(0, 256, 32):
            items.append(("sweep", "asan", st, c0, 32))
    return items


def work(item, ctx):
    res = F.Res()
    seed = ctx["seed"]
    kind = item[0]
    if kind in ("fuzz", "fuzz-valgrind"):
        _, variant, idx, per = item
        exe = ctx["exes"][variant]
        ns = 2 if variant.endswith("2") else 1
        for h in range(per):
            rng = random.Random(F.seed_for(seed, "C01", idx, h))
            mode = rng.random()
            drop = ()
            if mode < 0.12:
                cfg = H.full_config(rng, ns, minimal=True)
            else:
                if mode < 0.45:
                    drop = tuple(rng.sample(["1003", "1006", "1014", "1017", "1005", "1018", "1016", "1280", "1010", "14xx", "18xx", "subs", "subs", "subs"], rng.randint(1, 3)))
                cfg = H.full_config(rng, ns, drop=drop, fill=0xA5 if rng.random() < 0.05 else 0)
            g = H.Hostile(rng, cfg, ns)
            lines = g.history(rng.choice([30, 60, 120, 300]))
            if rng.random() < 0.25:
                # deferred processing: the tick interrupts are served at once, the timer processing of the background loop follows one to
                # three inputs later (several expired events wait, and frames / API calls delete or restart timers among them)
                out_ = []
                due_ = []
                for l_ in lines:
                    if l_.startswith("tick ") and rng.random() < 0.7:
                        out_.append("svc " + l_.split()[1])
                        due_.append(len(out_) + rng.randint(0, 3))
                    else:
                        out_.append(l_)
                    while due_ and due_[0] <= len(out_):
                        due_.pop(0)
                        out_.append("tproc")
                lines = out_ + ["tproc"]
                res.counters["histories_with_deferred_timer_processing"] += 1
            if cfg.has(0x2031, 0):
                # the application resets the node from inside the write function of an object while the SDO request is being served
                rid = 0x600 + cfg.nodeid
                for e_ in ["rx %x 8 2f31200001000000" % rid, "rx %x 8 2131200001000000" % rid, "rx %x 8 0d01000000000000" % rid, "rx %x 8 2f31200002000000" % rid, "tick 3"]:
                    lines.insert(rng.randint(len(lines) // 3, len(lines)), e_)
                res.counters["histories_with_reset_object"] += 1
            if cfg.has(0x1804, 1):
                # records of PDOs the stack is not built for: written like any other object, in PRE-OPERATIONAL and in OPERATIONAL
                rid = 0x600 + cfg.nodeid
                extra = ["rx %x 8 %s" % (rid, bytes(b).hex()) for b in (
                    [0x2B, 0x04, 0x18, 0x05, rng.choice([0, 5, 50]), 0, 0, 0], [0x23, 0x04, 0x14, 0x01, (0x210 + cfg.nodeid) & 0xFF, (0x210 + cfg.nodeid) >> 8, 0, rng.choice([0, 0x80])],
                    [0x23, 0x04, 0x18, 0x01, (0x190 + cfg.nodeid) & 0xFF, (0x190 + cfg.nodeid) >> 8, 0, rng.choice([0x40, 0xC0])], [0x2F, 0x04, 0x18, 0x02, rng.choice([1, 254]), 0, 0, 0],
                    [0x2B, 0x04, 0x18, 0x03, 10, 0, 0, 0], [0x2F, 0x04, 0x1A, 0x00, 0, 0, 0, 0], [0x2F, 0x04, 0x16, 0x00, 1, 0, 0, 0])]
                for e_ in extra + ["rx 0 2 01%02x" % cfg.nodeid] + extra + ["trigpdo 0", "rx 80 0 -", "tick 10"]:
                    lines.insert(rng.randint(len(lines) // 2, len(lines)), e_)
                res.counters["histories_with_surplus_pdo_records"] += 1
            res.evals += 1
            res.counters["cfg_" + ("minimal" if mode < 0.12 else "dropped" if drop else "full")] += 1
            res.counters["build_" + variant] += 1
            run_history(res, exe, cfg, lines, (variant, idx, h), valgrind=(kind == "fuzz-valgrind"))
            if h == 0 and idx < 2:
                res.sample({"build": variant, "node": cfg.nodeid, "freq": cfg.freq, "tmrnum": cfg.tmrnum,
                            "objects": len(cfg.objs), "dropped": list(drop), "script_head": lines[:12]})
    elif kind == "hbcgap":
        # a heartbeat consumer table with a gap in its sub-indices (or fewer entries than 1016h:0 says): the initialisation of the table
        # gives up at the gap - every request to the entries that do exist still has to be served without touching anything else
        _, variant, idx = item
        exe = ctx["exes"][variant]
        rng = random.Random(F.seed_for(seed, "C01hbcgap", idx))
        nid = rng.choice([1, 9, 127])
        cfg = S.Config(nodeid=nid, freq=1000, tmrnum=8)
        gen.add_mandatory(cfg, hb=0, ssdo=1, ssdo_rw=False)
        n = rng.choice([2, 3, 4])
        gen.add_hbcons(cfg, [(10 + i, rng.choice([0, 50, 200])) for i in range(n)])
        gone = rng.randint(2, n) if idx % 2 == 0 else None
        if gone:
            cfg.objs = [o for o in cfg.objs if not (o.idx == 0x1016 and o.sub == gone)]
        else:
            for o in cfg.objs:
                if o.idx == 0x1016 and o.sub == 0:
                    o.args[-1] = n + 1            # the count names one entry more than the table has
        cfg.finalize()
        rid = 0x600 + nid
        lines = []
        for sub in range(1, n + 2):
            for v in (0x000A0032, 0x000B0000, 0x000C0064, 0):
                lines.append("rx %x 8 %s" % (rid, (bytes([0x23, 0x16, 0x10, sub]) + v.to_bytes(4, "little")).hex()))
                lines.append("rx %x 8 %s" % (rid, bytes([0x40, 0x16, 0x10, sub, 0, 0, 0, 0]).hex()))
            lines += ["rx %x 1 05" % (0x700 + 10 + sub - 1), "tick 120", "hbevents %d" % (10 + sub - 1)]
        lines += ["rx 0 2 82%02x" % nid, "tick 60"] + lines[:12]
        run_history(res, exe, cfg, lines, ("hbcgap", idx))
    elif kind == "blkrepeat":
        # a peer that repeats one frame of an open transfer for ever: the last segment of a block download (c bit, sequence number 1)
        # instead of the end request, a segment of a block with a running sequence number, the same download segment
        _, variant, idx = item
        exe = ctx["exes"][variant]
        cfg = H.full_config(random.Random(7), 1, nodeid=1, tmrnum=16, freq=1000)
        sub = [0, 7, 8, 9][idx % 4]                # domains of 1, 889, 890 and 1778+ bytes
        init = "rx 601 8 %s" % (bytes([0xC2 if idx < 4 else 0xC0, 0x20, 0x20, sub]) + (2000).to_bytes(4, "little")).hex()
        lines = ["restart", "start", init] + ["rx 601 8 81aabbccddeeff00"] * 300 + ["rx 601 8 c100000000000000", "rx 601 8 8020200000000000"]
        lines += [init] + ["rx 601 8 %02xaabbccddeeff00" % (1 + k % 127) for k in range(400)] + ["rx 601 8 8020200000000000"]
        lines += ["rx 601 8 %s" % (bytes([0x21, 0x20, 0x20, sub]) + (2000).to_bytes(4, "little")).hex()] + ["rx 601 8 00aabbccddeeff00", "rx 601 8 10aabbccddeeff00"] * 300
        run_history(res, exe, cfg, lines, ("blkrepeat", idx))
    elif kind == "boundary":
        # block downloads whose buffered data ends exactly at / around the transfer buffer size (127 segments = 889 bytes):
        # last segment flagged or not, 0/1/2/127 more in-order data segments behind it, end frame with n in {0, 6, 7}
        _, variant, lo, n = item
        exe = ctx["exes"][variant]
        rng = random.Random(F.seed_for(seed, "C01boundary", lo))
        cfg = H.full_config(random.Random(7), 1, nodeid=1, tmrnum=16, freq=1000)
        sizes = [882, 883, 884, 888, 889, 890, 895, 896, 1771, 1772, 1777, 1778, 1779, 6, 7, 8, 14, 875]
        rid = 0x601
        f = lambda b: "rx %x 8 %s" % (rid, (bytes(b) + bytes(8))[:8].hex())
        for size in sizes[lo:lo + n]:
            for announce in (size, 0, 4000):
                lines = []
                for extra in (0, 1, 2, 127):
                    for flag_last in (True, False):
                        for endn in (0, 6, 7):
                            lines += ["restart", "start", f(bytes([0xC6 if announce else 0xC4, 0x20, 0x20, 9]) + announce.to_bytes(4, "little"))]
                            nseg = (size + 6) // 7
                            seq = 0
                            for i in range(nseg):
                                seq += 1
                                last = i == nseg - 1
                                lines.append(f(bytes([seq | (0x80 if (last and flag_last) else 0)]) + bytes((i + k) & 0xFF for k in range(7))))
                                if seq == 127:
                                    seq = 0
                            for k in range(extra):
                                seq += 1
                                lines.append(f(bytes([seq]) + bytes([0xEE] * 7)))
                                if seq == 127:
                                    seq = 0
                            lines.append(f(bytes([0xC1 | (endn << 2)]) + bytes(7)))
                            lines += [f(bytes([0x40, 0x20, 0x20, 9, 0, 0, 0, 0])), f(bytes([0x60] + [0] * 7)), "tick 2"]
                            res.counters["boundary_cases"] += 1
                res.evals += 1
                run_history(res, exe, cfg, lines, ("boundary", size, announce), count=False)
                res.nt("boundary", size, announce)
        if lo == 0:
            res.sample({"boundary": "block download of %d bytes announced as %d, last segment flagged / not, 0/1/2/127 extra segments, end n in {0,6,7}" % (sizes[0], sizes[0])})
    elif kind == "pairloop":
        # (X, Y) repeated N times on one node without any reset in between: X = every command byte with the multiplexer of a large
        # domain / a string / a 32-bit object and three size fields, Y = one of the continuation frames of the protocol
        _, variant, c0, n, reps = item
        exe = ctx["exes"][variant]
        cfg = H.full_config(random.Random(7), 1, nodeid=1, tmrnum=16, freq=1000)
        f = lambda b: "rx 601 8 %s" % (bytes(b) + bytes(8))[:8].hex()
        conts = [[0x00, 1, 2, 3, 4, 5, 6, 7], [0x01, 1, 2, 3, 4, 5, 6, 7], [0x10, 1, 2, 3, 4, 5, 6, 7], [0x1D, 9, 9, 9, 9, 9, 9, 9], [0x03, 1, 2, 3, 4, 5, 6, 7], [0x02, 1, 2, 3, 4, 5, 6, 7], [0x60], [0x70],
                 [0x01, 0xAA, 0xBB, 0xCC, 0xDD, 0xEE, 0xFF, 0x11], [0x81, 1, 2, 3, 4, 5, 6, 7], [0x7F, 1, 2, 3, 4, 5, 6, 7], [0xC1], [0xDD], [0xA3], [0xA2, 1, 127], [0xA2, 0, 1], [0xA1]]
        for cmd in range(c0, c0 + n):
            for m in (bytes([0x20, 0x20, 9]), bytes([0x10, 0x20, 4]), bytes([0x00, 0x20, 2])):
                for sz in (5, 0, 2000):
                    x = f(bytes([cmd]) + m + sz.to_bytes(4, "little"))
                    lines = []
                    ncyc = 0
                    for y in conts:
                        bodies = [[x, f(y)]]
                        if y[0] < 0x20 or y[0] in (0x60, 0x70):
                            bodies.append([x, f(y), x, f([y[0] ^ 0x10] + y[1:])])       # segment frames with alternating toggle bit
                        for body in bodies:
                            lines += body * (reps * 2 // len(body)) + ["tick 1"]
                            ncyc += 1
                    res.evals += 1
                    res.counters["pairloop_cycles"] += ncyc
                    res.counters["pairloop_frames"] += 2 * reps * ncyc
                    run_history(res, exe, cfg, lines, ("pairloop", cmd, m.hex(), sz), count=False)
            res.nt("pairloop", cmd)
    elif kind == "cycle":
        # a short random sequence of hostile frames repeated many times
        _, variant, idx, per = item
        exe = ctx["exes"][variant]
        ns = 2 if variant.endswith("2") else 1
        for h in range(per):
            rng = random.Random(F.seed_for(seed, "C01cycle", idx, h))
            cfg = H.full_config(rng, ns, drop=("1010",) if rng.random() < 0.5 else ())
            g = H.Hostile(rng, cfg, ns)
            seq = []
            for _ in range(rng.choice([1, 2, 2, 3, 4, 6])):
                seq += [g.sdo_frame(rng.randrange(ns))] if rng.random() < 0.8 else [l for l in g.step() if not l.startswith(("restart", "stop", "nmtreset", "fault"))][:8]
            lines = seq * rng.choice([150, 300, 900]) + ["tick 2"]
            res.evals += 1
            res.counters["random_cycles"] += 1
            run_history(res, exe, cfg, lines, ("cycle", idx, h), count=False)
            res.nt("cycle", tuple(seq))
    elif kind == "sweep":
        _, variant, st, c0, n = item
        exe = ctx["exes"][variant]
        rng = random.Random(F.seed_for(seed, "C01sweep", st, c0))
        cfg = H.full_config(random.Random(7), 1, nodeid=1, tmrnum=16, freq=1000)
        g = H.Hostile(rng, cfg, 1)
        pre = sweep_prefix(st, g)
        for cmd in range(c0, c0 + n):
            lines = []
            for pl in sweep_payloads(cmd, rng):
                lines += ["restart", "start"] + pre + ["rx %x 8 %s" % (0x601, pl.hex())]
                # follow-up traffic so that a corrupted cursor becomes visible
                lines += ["rx 601 8 %s" % bytes([0x60] + [0] * 7).hex(), "rx 601 8 %s" % bytes([0x00, 1, 2, 3, 4, 5, 6, 7]).hex(),
                          "rx 601 8 a300000000000000", "rx 601 8 a201040000000000", "tick 2"]
            res.evals += 1
            res.counters["sweep_cases"] += 6
            res.states.add(("sweep", st, cmd))
            run_history(res, exe, cfg, lines, ("sweep", st, cmd), count=False)
            res.nt("sweep", st, cmd)
        if c0 == 0 and st == "blkdn":
            res.sample({"sweep_state": st, "prefix": pre, "first_payloads": [p.hex() for p in sweep_payloads(0, rng)[:3]]})
    return res


def selftest(ctx):
    """The same code path that judges the real run must flag a canned crash report, a canned invariant line and a fatal callback."""
    txt = ("==1==ERROR: AddressSanitizer: heap-buffer-overflow on address 0x1 at pc 0x2\nWRITE of size 1 at 0x1 thread T0\n"
           "    #0 0x55 in COSdoDownloadSegmented /repo/src/service/cia301/co_ssdo.c:518\n")
    assert S.parse_crash(txt, 98).startswith("asan:heap-buffer-overflow:WRITE:COSdoDownloadSegmented")
    assert S.parse_crash("/repo/src/x.c:1:2: runtime error: index 8 out of bounds for type 'CO_OBJ *[8]'\n    #0 0x1 in CORPdoGetMap /repo/src/service/cia301/co_pdo.c:3", 99).startswith("ubsan:x.c:CORPdoGetMap")
    assert S.parse_crash("\nWATCHDOG step exceeded CPU budget\n./cosim(CONmtHbConsCheck+0x55)[0x1]\n", 97) == "hang:CONmtHbConsCheck"
    r = F.Res()
    assert check_step(r, None, "rx 0 0 -", [["inv", "tmr-conservation", "x"]]) and r.violations[0]["key"] == "inv/tmr-conservation"
    r = F.Res()
    assert check_step(r, None, "rx 0 0 -", [["cb", "fatal"]])
    r = F.Res()
    assert check_step(r, None, "rx 0 0 -", [["tx", "0", "1", "0", "-"]] * (MAXFRAMES + 1))


def finish(total, tier):
    p = []
    c = total.counters
    if c["tx_frames"] < 1000:
        p.append("too few transmitted frames observed (%d)" % c["tx_frames"])
    if c["sweep_cases"] < 8 * 256 * 6 and not total.violations:
        p.append("state x command sweep incomplete (%d)" % c["sweep_cases"])
    return p


def replay(case, ctx):
    return F.replay_log(case, ctx)
