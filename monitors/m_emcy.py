"""C15 - error state, error register, EMCY frames and error history."""
import random, itertools
import framework as F
import sim as S
import gen
from sim import Config, var, W, R, P, A, N, D, RW

PROP = "C15"
LEVEL = "exploration"
RULE = ("emergency tables (1..32 errors, register bit 0..7 each, class sharing, generic-class errors) x history depths 0..8 (wrap-around also at depths 127, 128 and 254) x histories of "
        "COEmcySet(with/without manufacturer bytes)/COEmcyClr/COEmcyReset(silent?)/write 1003h:0 (0 and non-zero)/NMT changes incl. reset "
        "communication/1014h rewrites incl. disabling: complete enumeration to the depth bound on a 4-error table (two errors sharing a "
        "class, one generic) plus random histories, plus histories with a status TPDO that maps 1001h and an application that reads count / 1003h:0 / 1001h inside COPdoTransmit; after EVERY step frames, COEmcyCnt, COEmcyGet, 1001h and 1003h:0..depth (API and SDO) "
        "are compared with the reference model; non-trivial = history with >= 2 real transitions; distinct by script")
ASSUMPTIONS = ["error indices < table length (API precondition), or >= CO_EMCY_N with a full table (documented: treated as the last row)", "reading 1003h above the stored count is not constrained",
               "whether the history survives a reset communication is not constrained (the model adopts the observed count after a reset)"]
VARIANTS = ["asan"]


class EModel:
    def __init__(self, table, depth, nid, emcy_id):
        self.table, self.depth, self.nid = table, depth, nid
        self.active = [False] * len(table)
        self.hist = []            # newest first
        self.emcy_id = emcy_id    # value of 1014h as read through the dictionary
        self.mode = 2             # PREOP

    def register(self):
        r = 0
        for i, a in enumerate(self.active):
            if a:
                r |= 1
                if self.table[i][0] >= 1:
                    r |= 1 << self.table[i][0]
        return r

    def can_send(self):
        return self.mode in (2, 3) and not (self.emcy_id & 0x80000000)

    def frame(self, code, usr):
        data = bytes([code & 0xFF, code >> 8, self.register()]) + (usr if usr else bytes(5))
        return (self.emcy_id & 0x3FFFFFFF, data)      # bit 29 (29-bit identifier) is handed to the driver with the identifier

    def set(self, e, usr=None, hist=0):
        if self.active[e]:
            return []
        self.active[e] = True
        if self.depth > 0:
            self.hist.insert(0, self.table[e][1] | (hist << 16))
            del self.hist[self.depth:]
        return [self.frame(self.table[e][1], usr)] if self.can_send() else []

    def clr(self, e):
        if not self.active[e]:
            return []
        self.active[e] = False
        return [self.frame(0, None)] if self.can_send() else []

    def reset(self, silent):
        out = []
        for e in range(len(self.table)):
            if self.active[e]:
                self.active[e] = False
                if not silent and self.can_send():
                    out.append(self.frame(0, None))
        return out


def make(rng, fixed=None):
    nid = rng.choice([1, 2, 100])
    if fixed:
        table, depth = [(1, 0x2000), (1, 0x2100), (0, 0x1000), (4, 0x8130)], fixed
    else:
        n = rng.choice([1, 2, 3, 4, 8, 32])
        table = [(rng.choice([0, 1, 2, 3, 4, 5, 7, 1, 1]), rng.choice([0x1000, 0x2000, 0x2100, 0x3100, 0x4200, 0x5000, 0x6100, 0x8130, 0xFF00]) + i) for i in range(n)]
        depth = rng.choice([0, 1, 2, 3, 4, 8])
    cfg = Config(nodeid=nid, freq=1000, tmrnum=8)
    # one dictionary in ten has no EMCY COB-ID 1014h at all (the object is optional): error state and register work, no frame ever goes out
    cfg.no1014 = (not fixed) and rng.random() < 0.1
    gen.add_mandatory(cfg, hb=0, emcy_id=0x80, emcy_hist=depth, ssdo=1, ssdo_rw=False, with1014=not cfg.no1014)
    cfg.emcy = table
    cfg.finalize()
    return cfg, nid, table, depth


def check_state(sim, m, fail, full):
    cnt = int(sim.ret("emcycnt")[0])
    want = sum(m.active)
    if cnt != want:
        return fail("count", "COEmcyCnt = %d, reference %d" % (cnt, want), want, cnt)
    r = sim.ret("rd 1001 0 1")
    if int(r[1], 16) != m.register():
        return fail("register", "1001h = %02x, reference %02x (active %r)" % (int(r[1], 16), m.register(), [i for i, a in enumerate(m.active) if a]), m.register(), int(r[1], 16))
    for e in (range(len(m.table)) if full else range(min(4, len(m.table)))):
        g = int(sim.ret("emcyget %d" % e)[0])
        if g != int(m.active[e]):
            return fail("get", "COEmcyGet(%d) = %d, reference %d" % (e, g, int(m.active[e])))
    if m.depth > 0:
        r = sim.ret("rd 1003 0 1")
        if int(r[0]) != 0 or int(r[1], 16) != len(m.hist):
            return fail("history/count", "1003h:0 = %s (err %s), reference %d" % (r[1], r[0], len(m.hist)), len(m.hist), r[1])
        for k in range(1, len(m.hist) + 1):
            r = sim.ret("rd 1003 %x 4" % k)
            if int(r[0]) != 0 or int(r[1], 16) != m.hist[k - 1]:
                return fail("history/entry", "1003h:%d = %s (err %s), reference %x (history newest first %r)" % (k, r[1], r[0], m.hist[k - 1], ["%x" % h for h in m.hist]),
                            "%x" % m.hist[k - 1], r[1])
    return True


def do_op(sim, m, op, nid, fail, rng):
    """Returns False on violation."""
    k = op[0]
    want = []
    if k == "set":
        e = op[1]
        if len(op) > 2:
            hist, usr = op[2], op[3]
            want = m.set(e, usr, hist)
            evs = sim.cmd("emcyset %d %x %s" % (e, hist, usr.hex()))
        else:
            want = m.set(e)
            evs = sim.cmd("emcyset %d" % e)
    elif k == "clr":
        want = m.clr(op[1])
        evs = sim.cmd("emcyclr %d" % op[1])
    elif k in ("setx", "clrx"):
        # an error identifier beyond the table of CO_EMCY_N rows: the library maps it to the last row
        want = m.set(len(m.table) - 1) if k == "setx" else m.clr(len(m.table) - 1)
        evs = sim.cmd("%s %d" % ("emcyset" if k == "setx" else "emcyclr", op[1]))
    elif k == "reset":
        want = m.reset(op[1])
        evs = sim.cmd("emcyreset %d" % op[1])
    elif k == "histclr":
        if m.depth == 0 or m.mode not in (2, 3):
            return True
        v = op[1]
        code, evs = S.sdo_write(sim, nid, 0x1003, 0, v, 1)
        if v == 0:
            m.hist = []
            if code is not None:
                return fail("history/clear-refused", "write of 0 to 1003h:0 answered %r" % code)
        elif code != 0x06090030:
            return fail("history/write-accepted", "write of %d to 1003h:0 answered %r, reference 0609 0030h" % (v, code))
        evs = [e for e in evs if not (e[0] == "tx" and int(e[2], 16) == 0x580 + nid)]
    elif k == "histread":
        if m.depth == 0 or m.mode not in (2, 3) or not m.hist:
            return True
        n = rng.randint(1, len(m.hist))
        v, evs = S.sdo_read(sim, nid, 0x1003, n)
        if v != m.hist[n - 1]:
            return fail("history/sdo-read", "SDO read of 1003h:%d = %r, reference %x" % (n, v, m.hist[n - 1]))
        v, evs = S.sdo_read(sim, nid, 0x1003, 0)
        if v != len(m.hist):
            return fail("history/sdo-count", "SDO read of 1003h:0 = %r, reference %d" % (v, len(m.hist)))
        return True
    elif k == "nmt":
        cs = op[1]
        evs = sim.rx(0, bytes([cs, nid]))
        if cs == 1: m.mode = 3
        elif cs == 2: m.mode = 4
        elif cs == 128: m.mode = 2
        elif cs == 130:
            m.mode = 2
            m.active = [False] * len(m.table)
            # history after a reset communication is open: adopt what the node reports
            if m.depth > 0:
                r = sim.ret("rd 1003 0 1")
                n = int(r[1], 16)
                if n > len(m.hist):
                    return fail("history/reset-grew", "history count grew over a reset")
                m.hist = m.hist[:n]
        evs = [e for e in evs if not (e[0] == "tx" and int(e[2], 16) == 0x700 + nid)]
    elif k == "reinit":
        # the documented restart CONodeStop / CONodeInit / CONodeStart on the RAM as it is: no error is active afterwards, so the
        # register is empty and the counters are zero; the history may be kept or cleared, but count and entries have to agree
        sim.cmd("reinit")
        evs = sim.cmd("start")
        m.mode = 2
        m.active = [False] * len(m.table)
        if m.depth > 0:
            r = sim.ret("rd 1003 0 1")
            n = int(r[1], 16)
            if n > len(m.hist):
                return fail("history/restart-grew", "history count grew over a restart")
            m.hist = m.hist[:n]
        evs = [e for e in evs if not (e[0] == "tx" and int(e[2], 16) == 0x700 + nid)]
    elif k == "id":
        if m.mode not in (2, 3) or getattr(sim.cfg, "no1014", False):
            return True
        v = op[1]
        code, evs = S.sdo_write(sim, nid, 0x1014, 0, v, 4)
        cur = m.emcy_id
        if not (cur & 0x80000000):
            ok = (v & 0x1FFFFFFF) == (cur & 0x1FFFFFFF)
        else:
            ok = v >= 0x80
        if ok:
            if code is not None:
                return fail("cobid/refused", "write %08x to 1014h (was %08x) answered %r" % (v, cur, code))
            m.emcy_id = v
        elif code is None:
            return fail("cobid/accepted", "write %08x to 1014h (was %08x) accepted" % (v, cur))
        evs = [e for e in evs if not (e[0] == "tx" and int(e[2], 16) == 0x580 + nid)]
    else:
        raise ValueError(op)
    got = [(cid, d) for (t, cid, dlc, d, f) in S.txs(evs)]
    if got != want:
        return fail("frames/%s" % k, "after %r: frames %r, reference %r" % (op[:2], [("%x" % c, d.hex()) for c, d in got][:5], [("%x" % c, d.hex()) for c, d in want][:5]),
                    [("%x" % c, d.hex()) for c, d in want], [("%x" % c, d.hex()) for c, d in got])
    for iv in S.invs(evs):
        return fail("inv", "invariant " + iv)
    return True


def run_history(res, sim, cfg, nid, table, depth, ops, rng, sample=False):
    sim.cmd("restart"); sim.cmd("start")
    m = EModel(table, depth, nid, 0x80000000 if getattr(cfg, "no1014", False) else 0x80 + nid)
    script = []
    ok = [True]

    def fail(key, msg, exp=None, obs=None):
        if ok[0]:
            res.violation("c15/" + key, "table %r depth %d: %s | script: %s" % (table[:6], depth, msg, "; ".join(script[-8:])), sim=sim, expected=exp, observed=obs)
        ok[0] = False
        return False
    trans = 0
    for op in ops:
        script.append(repr(op[:2]))
        before = sum(m.active)
        if not do_op(sim, m, op, nid, fail, rng):
            return False
        trans += (sum(m.active) != before)
        if not check_state(sim, m, fail, len(table) <= 4):
            return False
    res.evals += 1
    res.counters["transitions"] += trans
    if trans >= 2:
        res.nt(tuple(script), tuple(table), depth)
    if sample:
        res.sample({"table": table[:6], "depth": depth, "script": script[:14]})
    return True


def enum_alphabet():
    a = [("set", e) for e in range(4)] + [("clr", e) for e in range(4)]
    a += [("set", 0, 0xBEEF, bytes([1, 2, 3, 4, 5])), ("reset", 0), ("reset", 1), ("histclr", 0), ("nmt", 2), ("nmt", 128), ("id", 0x80000081), ("id", 0x81)]
    return a


def run_observer(res, exe, rng):
    """A status TPDO (type 254) maps the error register 1001h (asynchronous): every change of the register sends it, and what the
    application sees of the emergency state inside COPdoTransmit - count, history depth, register - is the state AFTER that change."""
    nid = rng.choice([1, 2, 100])
    table = [(rng.choice([0, 1, 2, 3, 4, 5, 7]), 0x1000 + 0x111 * i) for i in range(rng.choice([2, 4, 8]))]
    depth = rng.choice([1, 2, 4, 8])
    cfg = Config(nodeid=nid, freq=1000, tmrnum=8)
    gen.add_mandatory(cfg, hb=0, emcy_id=0x80, emcy_hist=depth, ssdo=1, ssdo_rw=False)
    o = cfg.get(0x1001, 0)
    o.flags |= S.A | S.P
    gen.add_tpdo(cfg, 0, 0x40000180, 254, 0, 0, [gen.maplink(0x1001, 0, 8)])
    cfg.emcy = table
    cfg.finalize()
    sim = S.Sim(exe, cfg)
    try:
        m = EModel(table, depth, nid, 0x80 + nid)
        m.mode = 3
        sim.rx(0, bytes([1, nid]))
        sim.cmd("pdotxprobe 1")
        script = []
        for _ in range(rng.choice([10, 25, 40])):
            e = rng.randrange(len(table))
            before = m.register()
            if rng.random() < 0.6:
                script.append("set %d" % e); m.set(e); evs = sim.cmd("emcyset %d" % e)
            else:
                script.append("clr %d" % e); m.clr(e); evs = sim.cmd("emcyclr %d" % e)
            seen = [(int(c[1]), int(c[2]), int(c[3])) for c in S.cbs(evs, "pdotxemcy")]
            want = [(sum(m.active), len(m.hist), m.register())] if m.register() != before else []
            res.counters["observations_inside_transmit_callback"] += len(seen)
            if seen != want:
                res.violation("c15/observer/inside-transmit-callback", "table %r depth %d: inside COPdoTransmit of the status TPDO the application saw (active errors, 1003h:0, 1001h) = %r, reference %r | script: %s" % (
                    table, depth, seen, want, "; ".join(script[-8:])), sim=sim)
                return False
        res.evals += 1
        res.nt("observer", tuple(script))
        return True
    except S.SimDied as e:
        res.violation("c15/crash/" + e.signature, "executor died: " + e.signature, sim=sim, detail=e.detail[-2000:])
        return False
    finally:
        sim.close()


def plan(tier, seed):
    q = tier == "quick"
    alpha = enum_alphabet()
    depth = 4 if q else 5
    items = [("enum", depth, a, b) for a in range(len(alpha)) for b in range(len(alpha))]
    items += [("rand", i, 40 if q else 400) for i in range(32 if q else 200)]
    items += [("observer", i, 30 if q else 300) for i in range(8 if q else 32)]
    items += [("wrap", d, 0) for d in range(1, 9)]
    items += [("wrap", d, 1) for d in ((127, 128, 254) if q else (126, 127, 128, 129, 200, 253, 254))]       # deep histories: ring positions beyond 127
    return items


def work(item, ctx):
    res = F.Res()
    exe = ctx["exes"]["asan"]
    kind = item[0]
    rng = random.Random(F.seed_for(ctx["seed"], "C15", *item))
    try:
        if kind == "enum":
            _, depth, a, b = item
            alpha = enum_alphabet()
            cfg, nid, table, hd = make(random.Random(5), fixed=2)
            nid = cfg.nodeid
            sim = S.Sim(exe, cfg)
            try:
                for rest in itertools.product(range(len(alpha)), repeat=depth - 2):
                    ops = [alpha[a], alpha[b]] + [alpha[i] for i in rest]
                    ops = [("id", 0x80000080 + nid) if o == ("id", 0x80000081) else (("id", 0x80 + nid) if o == ("id", 0x81) else o) for o in ops]
                    if not run_history(res, sim, cfg, nid, table, hd, ops, rng, sample=(a == 0 and b == 9 and rest == (0,) * (depth - 2))):
                        break
            finally:
                sim.close()
        elif kind == "observer":
            for h in range(item[2]):
                if not run_observer(res, exe, rng):
                    break
        elif kind == "rand":
            for h in range(item[2]):
                cfg, nid, table, depth = make(rng)
                sim = S.Sim(exe, cfg)
                try:
                    ops = []
                    n = len(table)
                    for _ in range(rng.choice([20, 50, 100])):
                        x = rng.random()
                        if x < 0.06 and n == 32:
                            ops.append((rng.choice(["setx", "clrx"]), rng.choice([32, 33, 39, 40, 47, 100, 255])))
                        elif x < 0.3:
                            ops.append(("set", rng.randrange(n)))
                        elif x < 0.4:
                            ops.append(("set", rng.randrange(n), rng.getrandbits(16), gen.rand_bytes(rng, 5)))
                        elif x < 0.65:
                            ops.append(("clr", rng.randrange(n)))
                        elif x < 0.70:
                            ops.append(("reset", rng.choice([0, 1])))
                        elif x < 0.76:
                            ops.append(("histclr", rng.choice([0, 0, 1, 5, 255])))
                        elif x < 0.84:
                            ops.append(("histread",))
                        elif x < 0.92:
                            ops.append(("nmt", rng.choice([1, 2, 128, 130])))
                        elif x < 0.94:
                            ops.append(("reinit",))
                        else:
                            ops.append(("id", rng.choice([0x80000080 + nid, 0x80 + nid, 0x80000090, 0x90, 0x100, 0x7F, 0x80000000 | 0x7F, 0xA0012345, 0x20012345, 0xA0000080 + nid, 0x20000080 + nid])))
                    if not run_history(res, sim, cfg, nid, table, depth, ops, rng, sample=(item[1] == 0 and h == 0)):
                        break
                finally:
                    sim.close()
        else:
            # history wrap-around at every fill level for this depth
            d = item[1]
            cfg = Config(nodeid=1, freq=1000, tmrnum=8)
            gen.add_mandatory(cfg, hb=0, emcy_id=0x80, emcy_hist=d, ssdo=1, ssdo_rw=False)
            table = [(1 + i % 5, 0x2000 + 0x111 * i) for i in range(6)]
            cfg.emcy = table
            cfg.finalize()
            sim = S.Sim(exe, cfg)
            try:
                for fill in (range(0, 2 * d + 2) if d < 100 else (d + 1, 2 * d + 1)):
                    ops = []
                    for i in range(fill):
                        ops += [("set", i % 6, i, bytes(5)), ("clr", i % 6)]
                    ops += [("histread",), ("histclr", 0), ("set", 0), ("set", 1)]
                    if not run_history(res, sim, cfg, 1, table, d, ops, rng):
                        break
            finally:
                sim.close()
    except S.SimDied as e:
        res.violation("c15/crash/" + e.signature, "executor died: " + e.signature, detail=e.detail[-2000:])
    return res


def selftest(ctx):
    m = EModel([(1, 0x2000), (1, 0x2100), (0, 0x1000)], 2, 1, 0x81)
    assert m.set(0) == [(0x81, bytes([0x00, 0x20, 0x03, 0, 0, 0, 0, 0]))]
    m.set(1)
    m.clr(0)
    assert m.register() == 0x03
    m.clr(1)
    assert m.register() == 0
    m.set(2)
    assert m.register() == 0x01 and m.hist == [0x1000, 0x2100]


def finish(total, tier):
    return ["too few transitions"] if total.counters["transitions"] < 5000 else []


def replay(case, ctx):
    return F.replay_log(case, ctx)
