"""CiA 301 reference SDO client, written from the standard (section 7.2.4), not
from the implementation.  Each transfer is a coroutine: it yields the next
request frame (8 bytes) and is sent the list of frames the server emitted on its
response identifier in that step.  Every server response is checked against
what CiA 301 prescribes; the first deviation ends the transfer with a
violation record.  Choices a conforming client may make are parameters."""


class Deviation(Exception):
    def __init__(self, rule, desc):
        Exception.__init__(self, desc)
        self.rule, self.desc = rule, desc


def le32(v):
    return (v & 0xFFFFFFFF).to_bytes(4, "little")


def mux(idx, sub):
    return bytes([idx & 0xFF, idx >> 8, sub])


def abort_frame(idx, sub, code):
    return bytes([0x80]) + mux(idx, sub) + le32(code)


class Outcome:
    def __init__(self, kind, code=None, data=None, size=None, deviation=None, stats=None):
        self.kind = kind            # 'ok' | 'abort' | 'deviation'
        self.code, self.data, self.size, self.deviation = code, data, size, deviation
        self.stats = stats or {}

    def __repr__(self):
        if self.kind == "abort":
            return "abort(%08x)" % self.code
        if self.kind == "deviation":
            return "deviation(%s: %s)" % (self.deviation.rule, self.deviation.desc)
        return "ok(%s)" % (("%d bytes" % len(self.data)) if self.data is not None else "")


def _one(resp, what):
    if len(resp) != 1:
        raise Deviation("response-count", "%s: expected exactly 1 response, got %d %s" % (what, len(resp), [r.hex() for r in resp[:4]]))
    r = resp[0]
    if len(r) != 8:
        raise Deviation("response-dlc", "%s: response DLC %d" % (what, len(r)))
    return r


def _is_abort(r, idx, sub, what):
    if r[0] == 0x80:
        if r[1:4] != mux(idx, sub):
            raise Deviation("abort-mux", "%s: abort names %02x%02x:%02x instead of %04x:%02x" % (what, r[2], r[1], r[3], idx, sub))
        return int.from_bytes(r[4:8], "little")
    return None


def run(coro_fn, *a, **kw):
    """Wrap a client coroutine so that it always returns an Outcome."""
    def g():
        try:
            out = yield from coro_fn(*a, **kw)
            return out
        except Deviation as d:
            return Outcome("deviation", deviation=d)
    return g()


# ------------------------------------------------------------------ download
def download_expedited(idx, sub, data, size_indicated=True):
    n = 4 - len(data)
    cmd = 0x23 | (n << 2) if size_indicated else 0x22
    resp = yield bytes([cmd]) + mux(idx, sub) + (data + bytes(4))[:4]
    r = _one(resp, "expedited download")
    code = _is_abort(r, idx, sub, "expedited download")
    if code is not None:
        return Outcome("abort", code)
    if r != bytes([0x60]) + mux(idx, sub) + bytes(4):
        raise Deviation("exp-down-response", "expected 60 mux 00000000, got " + r.hex())
    return Outcome("ok", stats={"mode": "exp"})


def download_segmented(idx, sub, data, size_indicated=True, announce=None, fill_rng=None, segbytes=7, n0_last=False):
    """segbytes: data bytes per segment (1..7; CiA 301 lets every segment carry fewer than 7); n0_last: the last segment says n = 0
    ("segment size not indicated"), which CiA 301 allows when the total size was indicated in the initiate request."""
    size = len(data) if announce is None else announce
    cmd = 0x21 if size_indicated else 0x20
    resp = yield bytes([cmd]) + mux(idx, sub) + (le32(size) if size_indicated else bytes(4))
    r = _one(resp, "segmented download initiate")
    code = _is_abort(r, idx, sub, "segmented download initiate")
    if code is not None:
        return Outcome("abort", code)
    if r != bytes([0x60]) + mux(idx, sub) + bytes(4):
        raise Deviation("seg-down-init-response", "expected 60 mux 00000000, got " + r.hex())
    t = 0
    pos = 0
    nseg = 0
    while True:
        chunk = data[pos:pos + segbytes]
        pos += len(chunk)
        last = pos >= len(data)
        n = 7 - len(chunk)
        pad = bytes(fill_rng.getrandbits(8) for _ in range(n)) if fill_rng else bytes(n)
        if last and n0_last and size_indicated:
            n = 0
        resp = yield bytes([(t << 4) | (n << 1) | (1 if last else 0)]) + chunk + pad
        nseg += 1
        r = _one(resp, "download segment %d" % nseg)
        code = _is_abort(r, idx, sub, "download segment")
        if code is not None:
            return Outcome("abort", code, stats={"segments": nseg})
        if r != bytes([0x20 | (t << 4)]) + bytes(7):
            raise Deviation("seg-down-response", "segment %d: expected %02x 00.., got %s" % (nseg, 0x20 | (t << 4), r.hex()))
        t ^= 1
        if last:
            return Outcome("ok", stats={"mode": "seg", "segments": nseg})


def download_block(idx, sub, data, size_indicated=True, crc=False, lose=None, announce=None, pad_rng=None, empty_last=False):
    """lose(block_no, seqno, nsegs_in_block) -> True if that segment is lost on the bus (never for the block's final segment).
       empty_last: the data fills whole segments and the client ends with a last segment that carries the c bit only (end request n = 7)."""
    size = len(data) if announce is None else announce
    cmd = 0xC0 | (0x04 if crc else 0) | (0x02 if size_indicated else 0)
    resp = yield bytes([cmd]) + mux(idx, sub) + (le32(size) if size_indicated else bytes(4))
    r = _one(resp, "block download initiate")
    code = _is_abort(r, idx, sub, "block download initiate")
    if code is not None:
        return Outcome("abort", code)
    if (r[0] & 0xFB) != 0xA0 or r[1:4] != mux(idx, sub):
        raise Deviation("blk-down-init-response", "expected A0 mux blksize, got " + r.hex())
    blksize = r[4]
    if not (1 <= blksize <= 127):
        raise Deviation("blk-down-blksize", "block size %d outside 1..127" % blksize)
    if r[5:8] != bytes(3):
        raise Deviation("blk-down-init-reserved", "reserved bytes not zero: " + r.hex())
    allsegs = [data[i:i + 7] for i in range(0, len(data), 7)]
    if empty_last and data and len(data) % 7 == 0:
        allsegs.append(b"")
    pos = 0            # segments acknowledged so far
    blocks = 0
    retrans = 0
    last_len = 0
    while pos < len(allsegs):
        # one block: up to blksize segments starting at pos
        segs = allsegs[pos:pos + blksize]
        final_block = pos + len(segs) >= len(allsegs)
        nin = len(segs)
        inorder = 0
        broken = False
        for i, chunk in enumerate(segs):
            seq = i + 1
            is_last_of_block = (i == nin - 1)
            c = 0x80 if (final_block and is_last_of_block) else 0
            lost = (not is_last_of_block) and lose is not None and lose(blocks, seq, nin)
            if lost:
                broken = True
                continue
            if not broken:
                inorder = seq
            pad = bytes(pad_rng.getrandbits(8) for _ in range(7 - len(chunk))) if pad_rng else bytes(7 - len(chunk))
            resp = yield bytes([seq | c]) + chunk + pad
            if not is_last_of_block:
                if resp:
                    if len(resp) == 1 and _is_abort(resp[0], idx, sub, "block segment") is not None:
                        return Outcome("abort", _is_abort(resp[0], idx, sub, "block segment"), stats={"blocks": blocks})
                    raise Deviation("blk-down-segment-response", "response inside a block (seq %d): %s" % (seq, resp[0].hex()))
            else:
                r = _one(resp, "end of block %d" % blocks)
                code = _is_abort(r, idx, sub, "block download")
                if code is not None:
                    return Outcome("abort", code, stats={"blocks": blocks})
                if r[0] != 0xA2:
                    raise Deviation("blk-down-ack-cmd", "expected A2 ackseq blksize, got " + r.hex())
                if r[1] != inorder:
                    raise Deviation("blk-down-ackseq", "block %d: %d segments arrived in order, server acknowledged %d" % (blocks, inorder, r[1]))
                if not (1 <= r[2] <= 127):
                    raise Deviation("blk-down-blksize", "next block size %d outside 1..127" % r[2])
                if r[3:8] != bytes(5):
                    raise Deviation("blk-down-ack-reserved", "reserved bytes not zero: " + r.hex())
                blksize = r[2]
        if inorder < nin:
            retrans += 1
        pos += inorder
        if inorder > 0:
            last_len = len(segs[inorder - 1])
        blocks += 1
        if blocks > 4000:
            raise Deviation("blk-down-progress", "no progress")
    n = 7 - last_len
    resp = yield bytes([0xC1 | (n << 2)]) + bytes(7)
    r = _one(resp, "block download end")
    code = _is_abort(r, idx, sub, "block download end")
    if code is not None:
        return Outcome("abort", code, stats={"blocks": blocks})
    if r != bytes([0xA1]) + bytes(7):
        raise Deviation("blk-down-end-response", "expected A1 00.., got " + r.hex())
    return Outcome("ok", stats={"mode": "blk", "blocks": blocks, "retrans": retrans})


# -------------------------------------------------------------------- upload
def upload(idx, sub, allow_expedited=True):
    """Normal upload: expedited answer or segmented transfer."""
    resp = yield bytes([0x40]) + mux(idx, sub) + bytes(4)
    r = _one(resp, "upload initiate")
    code = _is_abort(r, idx, sub, "upload initiate")
    if code is not None:
        return Outcome("abort", code)
    if r[1:4] != mux(idx, sub):
        raise Deviation("up-init-mux", "response names another object: " + r.hex())
    if (r[0] & 0xE0) != 0x40 or (r[0] & 0x10):
        raise Deviation("up-init-cmd", "not an upload initiate response: " + r.hex())
    e, s = (r[0] >> 1) & 1, r[0] & 1
    if e:
        if not s:
            raise Deviation("up-exp-size", "expedited answer without size indication: " + r.hex())
        n = (r[0] >> 2) & 3
        data = r[4:8 - n]
        if r[8 - n:8] != bytes(n):
            raise Deviation("up-exp-padding", "unused bytes not zero: " + r.hex())
        return Outcome("ok", data=data, size=len(data), stats={"mode": "exp"})
    if not s:
        raise Deviation("up-seg-size", "segmented answer without size indication: " + r.hex())
    if (r[0] & 0x0C) != 0:
        raise Deviation("up-init-cmd", "n set in segmented initiate response: " + r.hex())
    size = int.from_bytes(r[4:8], "little")
    data = b""
    t = 0
    nseg = 0
    while True:
        resp = yield bytes([0x60 | (t << 4)]) + bytes(7)
        nseg += 1
        r = _one(resp, "upload segment %d" % nseg)
        code = _is_abort(r, idx, sub, "upload segment")
        if code is not None:
            return Outcome("abort", code, stats={"segments": nseg})
        if (r[0] & 0xE0) != 0x00:
            raise Deviation("up-seg-cmd", "segment %d: not an upload segment response: %s" % (nseg, r.hex()))
        if ((r[0] >> 4) & 1) != t:
            raise Deviation("up-seg-toggle", "segment %d: toggle %d expected %d" % (nseg, (r[0] >> 4) & 1, t))
        n = (r[0] >> 1) & 7
        c = r[0] & 1
        data += r[1:8 - n]
        if r[8 - n:8] != bytes(n):
            raise Deviation("up-seg-padding", "segment %d: unused bytes not zero: %s" % (nseg, r.hex()))
        if not c and n != 0:
            raise Deviation("up-seg-n", "segment %d: non-final segment with %d unused bytes" % (nseg, n))
        if len(data) > size:
            raise Deviation("up-seg-overrun", "more data (%d) than announced (%d)" % (len(data), size))
        if c:
            if len(data) != size:
                raise Deviation("up-seg-size-mismatch", "announced %d bytes, delivered %d" % (size, len(data)))
            return Outcome("ok", data=data, size=size, stats={"mode": "seg", "segments": nseg})
        if len(data) == size:
            raise Deviation("up-seg-c-bit", "segment %d delivered the last byte without c=1" % nseg)
        t ^= 1
        if nseg > max(5000, size // 7 + 10):
            raise Deviation("up-seg-progress", "no end")


def upload_block(idx, sub, blksize, ack_fn=None, next_blksize_fn=None, crc=False, pst=0, lost_fn=None):
    """ack_fn(block_no, nsegs_sent) -> number of segments to acknowledge (0..nsegs_sent).
       next_blksize_fn(block_no) -> block size announced with that acknowledge."""
    resp = yield bytes([0xA0 | (0x04 if crc else 0)]) + mux(idx, sub) + bytes([blksize, pst, 0, 0])
    r = _one(resp, "block upload initiate")
    code = _is_abort(r, idx, sub, "block upload initiate")
    if code is not None:
        return Outcome("abort", code)
    if (r[0] & 0xE0) == 0x40 and pst > 0:
        raise Deviation("blk-up-switch", "protocol switch not supported by this reference client")
    if (r[0] & 0xF9) != 0xC0 or r[1:4] != mux(idx, sub):
        raise Deviation("blk-up-init-response", "expected C2 mux size, got " + r.hex())
    if not (r[0] & 0x02):
        raise Deviation("blk-up-init-size", "size not indicated: " + r.hex())
    size = int.from_bytes(r[4:8], "little")
    data = b""
    cur_bs = blksize
    blocks = 0
    partial = 0
    resp = yield bytes([0xA3]) + bytes(7)
    while True:
        # resp holds the segments of one block
        remaining = size - len(data)
        max_segs = cur_bs
        if len(resp) == 1 and resp[0][0] == 0x80:
            code = _is_abort(resp[0], idx, sub, "block upload")
            return Outcome("abort", code, stats={"blocks": blocks})
        if not resp:
            raise Deviation("blk-up-no-segments", "block %d: server sent nothing although %d bytes are missing" % (blocks, remaining))
        if len(resp) > max_segs:
            raise Deviation("blk-up-too-many-segments", "block %d: %d segments for block size %d" % (blocks, len(resp), max_segs))
        need = (remaining + 6) // 7
        if size == 0:
            need = 1                  # an empty object is delivered as one last segment without data
        want = min(max_segs, need)
        if len(resp) != want:
            raise Deviation("blk-up-segment-count", "block %d: %d segments, expected %d (blksize %d, %d bytes missing)" % (blocks, len(resp), want, max_segs, remaining))
        segs = []
        for i, r in enumerate(resp):
            if len(r) != 8:
                raise Deviation("blk-up-seg-dlc", "segment DLC %d" % len(r))
            if (r[0] & 0x7F) != i + 1:
                raise Deviation("blk-up-seqno", "block %d: segment %d carries sequence number %d" % (blocks, i + 1, r[0] & 0x7F))
            is_final = (i + 1 == need)
            if bool(r[0] & 0x80) != is_final:
                raise Deviation("blk-up-c-bit", "block %d segment %d: c=%d but %s the final segment" % (blocks, i + 1, r[0] >> 7, "is" if is_final else "is not"))
            segs.append(r[1:8])
        k = len(segs) if ack_fn is None else ack_fn(blocks, len(segs))
        k = max(0, min(len(segs), k))
        if lost_fn is not None:
            # frames the CAN driver of the server refused never reached the client: it acknowledges the segments in front of the first gap
            lost = lost_fn()
            if any(lost[:len(segs)]):
                k = min(k, list(lost[:len(segs)]).index(True))
        if k < len(segs):
            partial += 1
        for i in range(k):
            take = min(7, size - len(data))
            chunk = segs[i][:take]
            if segs[i][take:] != bytes(7 - take):
                raise Deviation("blk-up-padding", "unused bytes of the final segment not zero: " + segs[i].hex())
            data += chunk
        blocks += 1
        nb = cur_bs if next_blksize_fn is None else next_blksize_fn(blocks)
        resp = yield bytes([0xA2, k, nb, 0, 0, 0, 0, 0])
        cur_bs = nb
        if len(data) >= size and (size > 0 or k >= 1):
            r = _one(resp, "block upload end")
            code = _is_abort(r, idx, sub, "block upload end")
            if code is not None:
                return Outcome("abort", code)
            if (r[0] & 0xE3) != 0xC1:
                raise Deviation("blk-up-end-cmd", "expected C1|n<<2, got " + r.hex())
            n = (r[0] >> 2) & 7
            want_n = (7 - size % 7) % 7 if size else 7
            if n != want_n:
                raise Deviation("blk-up-end-n", "end frame n=%d, expected %d for %d bytes" % (n, want_n, size))
            if not crc and r[1:8] != bytes(7) and r[3:8] != bytes(5):
                raise Deviation("blk-up-end-reserved", "reserved bytes not zero: " + r.hex())
            resp = yield bytes([0xA1]) + bytes(7)
            if resp:
                raise Deviation("blk-up-end-confirm-answered", "server answered the end confirmation: " + resp[0].hex())
            return Outcome("ok", data=data, size=size, stats={"mode": "blk", "blocks": blocks, "partial": partial})
        if blocks > 20000:
            raise Deviation("blk-up-progress", "no progress")
