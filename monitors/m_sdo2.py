"""C04 (verdicts / response counts / multiplexer) and C05 (recovery) monitors."""
import random
import framework as F
import sim as S
import gen
import refsdo as RC
import hostile as H
from m_sdo import (World, Runner, resolve, TYPE_CODE, E_OBJ, E_SUB, E_WR, E_RD, E_HIGH, E_SMALL, E_TBIT, E_CMD,
                   make_download, make_upload, apply_download, choose_download, SIZES, server_abort_ending)
from sim import W, R, N, D

E_BLKSIZE = 0x05040002


def le32(v):
    return (v & 0xFFFFFFFF).to_bytes(4, "little")


def parse_abort(r):
    return int.from_bytes(r[4:8], "little") if r and r[0] == 0x80 else None


def sync_model(world, sim):
    """Adopt the executor's current storage as the model's content (after a hostile history)."""
    toks = sim.dump()
    for k, t in zip(world.order, toks):
        o = world.om.get(k)
        if o is None:
            continue
        if o.kind == "int":
            v = int(t, 16)
            if o.flags & N:
                v = (v + world.nid) & ((1 << (8 * o.width)) - 1)
            o.val = v
        elif o.kind == "dom":
            o.data = bytes.fromhex(t.replace("-", ""))
        elif o.kind == "str":
            o.data = bytes.fromhex(t)[:-1]


# ------------------------------------------------------------------- C04
def expect_upload(world, idx, sub):
    """-> ('abort', code or None) | ('data', bytes)"""
    c = resolve(world, idx, sub, False)
    if c is not None:
        return ("abort", c)
    o = world.om.get((idx, sub))
    if o is None:
        return ("any", None)
    if o.kind == "usr":
        size, rderr, wrerr, ab = o.usr
        if size == 0 or rderr:
            code = ab if (ab and rderr and 0 < size <= 4) else None       # only expedited transfers forward the application's code
            return ("abort", code)
        return ("any", None)
    return ("data", o.bytes())


def expect_exp_download(world, idx, sub, n, s):
    """-> ('abort', code|None) | ('ok', nbytes_written)"""
    c = resolve(world, idx, sub, True)
    if c is not None:
        return ("abort", c)
    o = world.om.get((idx, sub))
    if o is None:
        return ("any", None)
    ln = 4 - n if s else None
    if o.kind == "int":
        if ln is not None and ln > o.width:
            return ("abort", E_HIGH)
        if ln is not None and ln < o.width:
            return ("abort", E_SMALL)
        return ("ok", o.width)
    if o.kind == "dom":
        if ln is None:
            return ("any", None)
        if ln > len(o.data):
            return ("abort", E_HIGH)
        return ("ok", ln)
    if o.kind == "usr":
        size, rderr, wrerr, ab = o.usr
        if size == 0:
            return ("abort", None)
        if ln is not None and ln != size:
            return ("abort", E_HIGH if ln > size else E_SMALL)
        if size > 4:
            return ("any", None)
        if wrerr:
            return ("abort", ab if ab else TYPE_CODE.get(wrerr))
        return ("any", None)
    return ("any", None)


def expect_init_size(world, idx, sub, size, blk):
    """Segmented/block download initiate with indicated size -> ('abort', code) | ('ok',) | ('any',)"""
    c = resolve(world, idx, sub, True)
    if c is not None:
        return ("abort", c)
    o = world.om.get((idx, sub))
    if o is not None and o.kind == "usr" and o.usr[0] > 4 and o.usr[2] and size == o.usr[0]:
        return ("abort", None)            # the type refuses the start of the write
    if o is None or o.kind == "usr":
        return ("any", None)
    cap = o.size()
    if size > cap:
        return ("abort", E_HIGH)
    if o.kind == "int" and size < cap:
        return ("any", None) if blk else ("abort", E_SMALL)
    return ("ok", None)


def wellformed(kind, r):
    """Is r a response CiA 301 knows for an initiate request of this kind (abort or the positive answer)?"""
    if r[0] == 0x80:
        return True
    if kind == "up":
        return (r[0] & 0xE0) == 0x40 and not (r[0] & 0x10)
    if kind in ("exp", "seginit"):
        return r[0] == 0x60
    if kind == "blkinit":
        return (r[0] & 0xFB) == 0xA0
    if kind == "blkup":
        return (r[0] & 0xF9) == 0xC0 or ((r[0] & 0xE0) == 0x40 and not (r[0] & 0x10))
    return True


def c04_matrix(res, run, world, rng, n_extra):
    sim = run.sim
    keys = list(world.om.keys())
    # neighbours of existing objects: absent sub-indices and absent indices
    probes = list(keys)
    for (i, s) in keys[::3]:
        probes += [(i, (s + 0x40) & 0xFF), ((i + 0x800) & 0xFFFF, s)]
    rng.shuffle(probes)
    for (idx, sub) in probes[:n_extra]:
        m = RC.mux(idx, sub)
        o = world.om.get((idx, sub))
        reqs = []
        reqs.append(("up", bytes([0x40]) + m + bytes(4)))
        for n in range(4):
            reqs.append(("exp", n, 1, bytes([0x23 | (n << 2)]) + m + gen.rand_bytes(rng, 4)))
        reqs.append(("exp", 0, 0, bytes([0x22]) + m + gen.rand_bytes(rng, 4)))
        cap = o.size() if o is not None and o.kind != "usr" else (o.usr[0] if o is not None and o.usr[0] else 4)
        for sz in sorted(set([1, 2, 4, 5, cap, cap + 1, max(1, cap - 1), 0xFFFFFFFF])):
            reqs.append(("seginit", sz, bytes([0x21]) + m + le32(sz)))
            reqs.append(("blkinit", sz, bytes([0xC2]) + m + le32(sz)))
        for bs in (0, 1, 127, 128, 255):
            reqs.append(("blkup", bs, bytes([0xA0]) + m + bytes([bs, 0, 0, 0])))
        rng.shuffle(reqs)
        for rq in reqs:
            frame = rq[-1]
            before = sim.dump()
            resp = run.step(0, frame)
            res.evals += 1
            what = "%s %s to %04x:%02x" % (rq[0], rq[1:-1], idx, sub)
            if len(resp) != 1:
                res.violation("c04/count/idle/%s" % rq[0], "%s: %d responses (%s)" % (what, len(resp), [r.hex() for r in resp[:3]]), sim=sim)
                return False
            r = resp[0]
            code = parse_abort(r)
            if code is not None and r[1:4] != m:
                res.violation("c04/abort-mux/%s" % rq[0], "%s: abort names %s" % (what, r[1:4].hex()), sim=sim)
                return False
            if not wellformed(rq[0], r):
                res.violation("c04/response/malformed/%s" % rq[0], "%s: answered with %s, which is neither an abort nor the positive answer to this request" % (what, r.hex()), sim=sim)
                return False
            exp = None
            positive_open = False
            if rq[0] == "up":
                exp = expect_upload(world, idx, sub)
                if code is None:
                    positive_open = not (r[0] & 0x02)
            elif rq[0] == "exp":
                exp = expect_exp_download(world, idx, sub, rq[1], rq[2])
            elif rq[0] in ("seginit", "blkinit"):
                exp = expect_init_size(world, idx, sub, rq[1], rq[0] == "blkinit")
                positive_open = code is None
            elif rq[0] == "blkup":
                c = resolve(world, idx, sub, False)
                if c is not None:
                    exp = ("abort", c)
                elif o is not None and o.kind == "usr" and o.usr[0] > 4 and o.usr[1] and 1 <= rq[1] <= 127:
                    exp = ("abort", None)     # the type refuses the read: no positive block upload answer
                elif o is not None and o.kind == "usr":
                    exp = ("any", None)
                elif not (1 <= rq[1] <= 127):
                    exp = ("abort", E_BLKSIZE)
                else:
                    exp = ("ok", None)
                positive_open = code is None
            res.counters["verdict_" + exp[0]] += 1
            if exp[0] == "abort":
                if code is None:
                    res.violation("c04/verdict/accepted/%s" % rq[0], "%s: must be refused (%s) but got %s" % (what, "%08x" % exp[1] if exp[1] else "abort", r.hex()), sim=sim)
                    return False
                if exp[1] is not None and code != exp[1]:
                    res.violation("c04/verdict/code/%s/%08x" % (rq[0], exp[1]), "%s: abort code %08x, statement prescribes %08x" % (what, code, exp[1]), sim=sim)
                    return False
                res.nt("refuse", rq[0], idx, sub, rq[1:-1])
            elif exp[0] in ("ok", "data"):
                if code is not None:
                    res.violation("c04/verdict/refused/%s" % rq[0], "%s: valid request refused with %08x" % (what, code), sim=sim)
                    return False
                if r[1:4] != m and rq[0] != "x":
                    res.violation("c04/mux/%s" % rq[0], "%s: positive response names %s" % (what, r[1:4].hex()), sim=sim)
                    return False
                if exp[0] == "data":
                    want = exp[1]
                    if 1 <= len(want) <= 4:
                        good = r[0] == (0x43 | ((4 - len(want)) << 2)) and r[4:4 + len(want)] == want
                    else:
                        good = r[0] == 0x41 and r[4:8] == le32(len(want))
                    if not good:
                        res.violation("c04/upload-content", "%s: response %s does not carry the object (%s..)" % (what, r.hex(), want[:4].hex()), sim=sim)
                        return False
                if rq[0] == "exp":
                    apply_download(o, frame[4:4 + exp[1]])
            if positive_open:
                # close the transfer we opened; how the abort is acknowledged is not constrained
                resp2 = run.step(0, RC.abort_frame(idx, sub, 0x08000000))
                if len(resp2) > 1:
                    res.violation("c04/count/abort", "client abort answered by %d frames" % len(resp2), sim=sim)
                    return False
            after = sim.dump()
            if code is not None and after != before:
                res.violation("c04/refusal-changed-storage/%s" % rq[0], "%s refused with %08x but storage changed" % (what, code), sim=sim)
                return False
            if rq[0] == "exp":
                # an expedited request, confirmed or refused, leaves no transfer open: a download segment must be refused and change nothing
                resp3 = run.step(0, bytes([rng.choice([0x00, 0x01, 0x10, 0x0D])]) + gen.rand_bytes(rng, 7))
                res.evals += 1
                if len(resp3) != 1 or parse_abort(resp3[0]) is None:
                    res.violation("c04/verdict/segment-after-expedited", "%s, then a download segment: answered %s (reference: abort, no transfer is open)" % (
                        what, [x.hex() for x in resp3[:2]]), sim=sim)
                    return False
                if sim.dump() != after:
                    res.violation("c04/refusal-changed-storage/segment-after-expedited", "%s, then a refused download segment: storage changed" % what, sim=sim)
                    return False
            bad = world.check_dump(sim)
            if bad and exp[0] != "any":
                res.violation("c04/storage/%s" % rq[0], "%s: storage differs from model: %r" % (what, bad[:2]), sim=sim)
                return False
            if exp[0] == "any":
                sync_model(world, sim)
    return True


def c04_rejected_values(res, run, world, rng):
    """A value the object's type rejects is refused with the type's code in EVERY transfer mode (expedited, segmented, block)."""
    sim = run.sim
    for k, o in sorted(world.om.items()):
        if o.kind != "usr" or not o.usr[2] or not (0 < o.usr[0] <= 4):
            continue
        size, rderr, wrerr, ab = o.usr
        want = ab if ab else TYPE_CODE.get(wrerr)
        if want is None:
            continue
        payload = gen.rand_bytes(rng, size)
        for mode in ("exp", "seg", "blk"):
            before = sim.dump()
            out = run.transfer(0, make_download(rng, o, payload, mode, rng.random() < 0.5, {}))
            res.evals += 1
            what = "%s download of %d bytes to %04x:%02x (type write fails with %d, application code %x)" % (mode, size, o.idx, o.sub, wrerr, ab)
            if out.kind != "abort":
                res.violation("c04/verdict/rejected-value/%s" % mode, "%s: outcome %r, reference abort %08x" % (what, out, want), sim=sim)
                return False
            if out.code != want:
                res.violation("c04/verdict/code/rejected-value/%s/%08x" % (mode, want), "%s: abort code %08x, statement prescribes %08x" % (what, out.code, want), sim=sim)
                return False
            if sim.dump() != before:
                res.violation("c04/refusal-changed-storage/rejected-value/%s" % mode, "%s: refused but storage changed" % what, sim=sim)
                return False
            res.nt("rejected", mode, o.idx, o.sub)
    # ... and an object whose read fails is never uploaded: not with stale bytes of an earlier transfer either
    for k, o in sorted(world.om.items()):
        if o.kind != "usr" or not o.usr[1] or o.usr[0] == 0:
            continue
        # leave recognisable bytes in the transfer buffer first
        dom = world.pick(lambda x: x.kind == "dom" and x.readable and x.size() >= 16)
        run.transfer(0, make_upload(rng, dom, "blk", {"blksize": 4, "ack": "all"}))
        for mode, opts in (("normal", {}), ("blk", {"blksize": 7, "ack": "all"})):
            out = run.transfer(0, make_upload(rng, o, mode, opts))
            res.evals += 1
            if out.kind != "abort":
                res.violation("c04/verdict/unreadable-uploaded/%s" % mode, "%s upload of %04x:%02x (%d bytes, type read fails with %d): outcome %r, reference abort" % (
                    mode, o.idx, o.sub, o.usr[0], o.usr[1], out), sim=sim)
                return False
            res.nt("unreadable", mode, o.idx, o.sub)
    return True


def c04_sweep_indices(res, run, world, lo, hi, subs):
    """Systematic index sweep with uploads (batched)."""
    sim = run.sim
    lines, meta = [], []
    close = "rx %x 8 %s" % (world.req_id(0), RC.abort_frame(0, 0, 0x08000000).hex())
    for idx in range(lo, hi):
        for sub in subs:
            lines.append("rx %x 8 %s" % (world.req_id(0), (bytes([0x40]) + RC.mux(idx, sub) + bytes(4)).hex()))
            lines.append(close)          # a segmented answer opens a transfer: close it before the next request
            meta.append((idx, sub))
    outs = sim.batch(lines)[0::2]
    for (idx, sub), evs in zip(meta, outs):
        res.evals += 1
        fr = [(cid, d) for (t, cid, dlc, d, f) in S.txs(evs)]
        exp = expect_upload(world, idx, sub)
        what = "upload of %04x:%02x" % (idx, sub)
        if len(fr) != 1 or fr[0][0] != world.resp_id(0) or len(fr[0][1]) != 8:
            res.violation("c04/count/index-sweep", "%s: frames %r" % (what, [(hex(c), d.hex()) for c, d in fr[:3]]), sim=sim)
            return False
        r = fr[0][1]
        code = parse_abort(r)
        if r[1:4] != RC.mux(idx, sub):
            res.violation("c04/mux/index-sweep", "%s: response names %s" % (what, r[1:4].hex()), sim=sim)
            return False
        if exp[0] == "abort":
            if code is None or (exp[1] is not None and code != exp[1]):
                res.violation("c04/verdict/index-sweep/%08x" % (exp[1] or 0), "%s: expected abort %s, got %s" % (what, "%08x" % exp[1] if exp[1] else "(any)", r.hex()), sim=sim)
                return False
        elif exp[0] == "data":
            if code is not None:
                res.violation("c04/verdict/index-sweep/refused", "%s: refused with %08x" % (what, code), sim=sim)
                return False
        if any(e[0] in ("inv",) for e in evs):
            res.violation("c04/inv/index-sweep", "invariant: %r" % S.invs(evs), sim=sim)
            return False
    res.counters["index_sweep_requests"] += len(meta)
    return True


STATES = ["idle", "segdn", "segup", "segup0", "blkdn", "dnwait", "blkupwait", "blkupsent",
          "done-expdn", "done-expup", "done-segdn", "done-segup", "done-blkdn", "done-blkup",
          "abrt-segdn-toggle", "abrt-segup-toggle", "abrt-blkdn-overrun", "abrt-segdn-overrun", "abrt-blkdn-size"]
IDLE_LIKE = ("idle", "done-expdn", "done-expup", "done-segdn", "done-segup", "done-blkdn", "done-blkup",
             "abrt-segdn-toggle", "abrt-segup-toggle", "abrt-blkdn-overrun", "abrt-segdn-overrun", "abrt-blkdn-size")


def enter_state(run, world, st, dom, bs=4):
    """Drive server 0 into a protocol state using object `dom` (a RW domain >= 100 bytes). Returns False if the server refuses."""
    m = RC.mux(dom.idx, dom.sub)
    seq = {
        "idle": [],
        "segdn": [bytes([0x21]) + m + le32(50)],
        "segup": [bytes([0x40]) + m + bytes(4)],
        "segup0": [bytes([0x40]) + RC.mux(0x2122, 0) + bytes(4)],          # upload of an object that is empty at the moment: announced with size 0, the one (empty) segment not yet requested
        "blkdn": [bytes([0xC2]) + m + le32(60), bytes([1]) + bytes(7)],
        "dnwait": [bytes([0xC2]) + m + le32(7), bytes([0x81]) + bytes(7)],
        "blkupwait": [bytes([0xA0]) + m + bytes([bs, 0, 0, 0])],
        "blkupsent": [bytes([0xA0]) + m + bytes([bs, 0, 0, 0]), bytes([0xA3]) + bytes(7)],
        # completed transfers (the server must be idle again afterwards)
        "done-expdn": [bytes([0x23, 0x00, 0x21, 0x02, 0x44, 0x33, 0x22, 0x11])],
        "done-expup": [bytes([0x40, 0x00, 0x21, 0x02, 0, 0, 0, 0])],
        "done-segdn": [bytes([0x21]) + m + le32(9), bytes([0x00, 1, 2, 3, 4, 5, 6, 7]), bytes([0x1B, 8, 9, 0, 0, 0, 0, 0])],
        "done-segup": [bytes([0x40]) + RC.mux(0x2110, 5) + bytes(4), bytes([0x60]) + bytes(7)],
        "done-blkdn": [bytes([0xC2]) + m + le32(7), bytes([0x81, 1, 2, 3, 4, 5, 6, 7]), bytes([0xC1]) + bytes(7)],
        "done-blkup": [bytes([0xA0]) + RC.mux(0x2110, 5) + bytes([bs, 0, 0, 0]), bytes([0xA3]) + bytes(7), bytes([0xA2, 1, bs, 0, 0, 0, 0, 0]), bytes([0xA1]) + bytes(7)],
        # transfers the server itself had to end with an abort (the server must be idle again afterwards, too)
        "abrt-segdn-toggle": [bytes([0x21]) + m + le32(50), bytes([0x00, 1, 2, 3, 4, 5, 6, 7]), bytes([0x00, 1, 2, 3, 4, 5, 6, 7])],
        "abrt-segup-toggle": [bytes([0x40]) + m + bytes(4), bytes([0x60]) + bytes(7), bytes([0x60]) + bytes(7)],
        "abrt-blkdn-overrun": [bytes([0xC0]) + RC.mux(0x2120, 6) + bytes(4), bytes([0x01, 1, 2, 3, 4, 5, 6, 7]), bytes([0x82, 1, 2, 3, 4, 5, 6, 7]), bytes([0xC1]) + bytes(7)],
        "abrt-segdn-overrun": [bytes([0x20, 0x00, 0x21, 0x02, 0, 0, 0, 0]), bytes([0x08, 1, 2, 3, 0, 0, 0, 0]), bytes([0x11, 1, 2, 3, 4, 5, 6, 7])],
        "abrt-blkdn-size": [bytes([0xC2]) + RC.mux(0x2120, 6) + le32(500)],
    }[st]
    for f in seq:
        run.step(0, f)
    return True


def allowed_counts(st, cmd, frame, bs):
    """Acceptable numbers of response frames for a frame arriving in protocol state st (relational model, section A.1)."""
    if cmd == 0x80:
        return (0, 1)
    if st in IDLE_LIKE or st in ("segdn", "segup", "segup0"):
        return (1, 1)
    if st == "blkdn":
        if (cmd & 0x7F) == 127 or (cmd & 0x80):
            return (1, 1)
        return (0, 1)
    if st == "dnwait":
        if (cmd & 0xE3) == 0xC1:
            return (1, 1)
        if (cmd & 0x7F) == 127 or (cmd & 0x80):
            return (1, 1)
        return (0, 1)
    if st == "blkupwait":
        if cmd == 0xA3:
            return (1, bs)
        if cmd == 0xA1:
            return (0, 1)
        if (cmd & 0xE3) == 0xA2:
            return (1, max(1, frame[2] if 1 <= frame[2] <= 127 else 1))
        return (1, 1)
    if st == "blkupsent":
        if cmd == 0xA1:
            return (0, 1)
        if (cmd & 0xE3) == 0xA2:
            return (1, max(1, frame[2] if 1 <= frame[2] <= 127 else 1))
        return (1, 1)
    raise ValueError(st)


def c04_state_sweep(res, run, world, rng, st, cmds):
    sim = run.sim
    dom = max((o for o in world.om.values() if o.kind == "dom" and o.writable), key=lambda o: len(o.data))
    other = world.om[(0x2100, 2)]            # a RW u32
    bs = 4
    for cmd in cmds:
        payloads = [bytes([cmd]) + bytes(7),
                    bytes([cmd]) + RC.mux(dom.idx, dom.sub) + le32(5),
                    bytes([cmd]) + RC.mux(other.idx, other.sub) + gen.rand_bytes(rng, 4),
                    bytes([cmd, 1, 2, 0, 0, 0, 0, 0]),
                    bytes([cmd]) + b"\xff" * 7,
                    bytes([cmd]) + gen.rand_bytes(rng, 7),
                    bytes([cmd]) + RC.mux(0x5FF0, 1) + le32(4)]          # names an object that does not exist
        for pl in payloads:
            run.step(0, RC.abort_frame(0, 0, 0x08000000))         # back to idle (C05 checks that this works)
            sync_model(world, sim)
            enter_state(run, world, st, dom, bs)
            before = sim.dump()
            resp = run.step(0, pl)
            res.evals += 1
            lo, hi = allowed_counts(st, cmd, pl, bs)
            what = "state %s, frame %s" % (st, pl.hex())
            res.states.add((st, cmd))
            if not (lo <= len(resp) <= hi):
                res.violation("c04/count/%s/%02x" % (st, cmd & 0xE0), "%s: %d responses, acceptable %d..%d (%s)" % (what, len(resp), lo, hi, [r.hex() for r in resp[:3]]), sim=sim)
                return False
            if (st == "segup" and (cmd & 0xE0) == 0x00) or (st == "segdn" and (cmd & 0xE0) == 0x60):
                # a segment of the opposite direction fits no running transfer: refused, and an upload never changes its object
                if len(resp) != 1 or resp[0][0] != 0x80:
                    res.violation("c04/verdict/opposite-direction-segment/%s" % st, "%s: a %s segment during a segmented %s was answered %s instead of an abort" % (
                        what, "download" if st == "segup" else "upload", "upload" if st == "segup" else "download", [r.hex() for r in resp]), sim=sim)
                    return False
                if st == "segup" and sim.dump() != before:
                    res.violation("c04/refusal-changed-storage/opposite-direction-segment", "%s: storage changed during an upload" % what, sim=sim)
                    return False
            if len(resp) == 1 and resp[0][0] == 0x80:
                code = parse_abort(resp[0])
                after = sim.dump()
                # a refusal changes nothing - except bytes a streaming transfer already delivered to its own domain (open, A.1)
                diff = [k for k, a, b in zip(world.order, before, after) if a != b]
                if st not in IDLE_LIKE:
                    diff = [k for k in diff if k != (dom.idx, dom.sub)]
                if diff:
                    res.violation("c04/refusal-changed-storage/%s" % st, "%s: aborted with %08x but %r changed" % (what, code, diff[:3]), sim=sim)
                    return False
                if st in IDLE_LIKE and (cmd & 0xE0) in (0x00, 0x60) and code not in (E_CMD, E_TBIT):
                    res.violation("c04/verdict/segment-without-transfer", "%s: abort %08x, expected 0504 0001h" % (what, code), sim=sim)
                    return False
                if st in IDLE_LIKE and ((cmd & 0xE0) in (0xE0,) or (0x81 <= cmd <= 0x9F)) and code != E_CMD:
                    res.violation("c04/verdict/unknown-command", "%s: abort %08x, expected 0504 0001h" % (what, code), sim=sim)
                    return False
            is_init = (cmd & 0xE0) == 0x20 or (cmd & 0xE0) == 0x40 or (cmd & 0xE3) == 0xA0 or (cmd & 0xE1) == 0xC0
            strict_init = (cmd & 0xF0) == 0x20 or cmd == 0x40 or (cmd & 0xE3) == 0xA0 or (cmd & 0xF9) == 0xC0
            if st in IDLE_LIKE and cmd != 0x80 and not is_init:
                if len(resp) != 1 or resp[0][0] != 0x80:
                    res.violation("c04/verdict/not-refused/%s" % ("completed" if st != "idle" else "idle"),
                                  "%s: a command that fits no state (server idle) was answered %s instead of an abort" % (what, [r.hex() for r in resp]), sim=sim)
                    return False
            if (st in IDLE_LIKE or st in ("segdn", "segup", "segup0")) and strict_init and pl[1:4] == RC.mux(0x5FF0, 1):
                code = parse_abort(resp[0]) if len(resp) == 1 else None
                if code != E_OBJ or resp[0][1:4] != pl[1:4]:
                    res.violation("c04/verdict/absent-object/%s" % st, "%s: initiate for a non-existent object answered %s, reference abort 0602 0000h for 5FF0h:1" % (what, [r.hex() for r in resp]), sim=sim)
                    return False
            if len(resp) == 1 and resp[0][0] != 0x80 and (st in IDLE_LIKE or st in ("segdn", "segup", "segup0")) and strict_init:
                r = resp[0]
                k = (pl[1] | (pl[2] << 8), pl[3])
                o = world.om.get(k)
                if o is not None and o.kind in ("int", "dom", "str") and o.readable:
                    if r[0] == 0x41 and int.from_bytes(r[4:8], "little") != o.size():
                        res.violation("c04/upload-size/%s" % st, "%s: segmented upload answer announces %d bytes, %04x:%02x has %d" % (what, int.from_bytes(r[4:8], "little"), k[0], k[1], o.size()), sim=sim)
                        return False
                    if (r[0] & 0xF9) == 0xC0 and (cmd & 0xE3) == 0xA0 and int.from_bytes(r[4:8], "little") != o.size():
                        res.violation("c04/upload-size/%s" % st, "%s: block upload answer announces %d bytes, %04x:%02x has %d" % (what, int.from_bytes(r[4:8], "little"), k[0], k[1], o.size()), sim=sim)
                        return False
            # positive initiate responses must concern the request's multiplexer
            if len(resp) == 1 and resp[0][0] != 0x80 and (st in IDLE_LIKE or st in ("segdn", "segup", "segup0")):
                r = resp[0]
                is_init_req = (cmd & 0xE0) == 0x20 or cmd == 0x40 or (cmd & 0xF9) == 0xC0 or (cmd & 0xE3) == 0xA0
                is_init_resp = r[0] == 0x60 or (r[0] & 0xE0) == 0x40 or (r[0] & 0xFB) == 0xA0 or (r[0] & 0xF9) == 0xC0
                if is_init_req and is_init_resp and r[1:4] != pl[1:4]:
                    res.violation("c04/mux/%s" % st, "%s: positive initiate response names %s" % (what, r[1:4].hex()), sim=sim)
                    return False
                if is_init_req and is_init_resp and r[0] == 0x60 and (cmd & 0x02):
                    # expedited write confirmed: the named object must now hold the value
                    k = (pl[1] | (pl[2] << 8), pl[3])
                    o = world.om.get(k)
                    after = sim.dump()
                    changed = [kk for kk, a, b in zip(world.order, before, after) if a != b]
                    if any(kk != k and kk != (dom.idx, dom.sub) for kk in changed):
                        res.violation("c04/wrong-object-written/%s" % st, "%s: confirmed for %04x:%02x but %r changed" % (what, k[0], k[1], changed[:3]), sim=sim)
                        return False
                    if o is not None and o.kind == "int":
                        n = (cmd >> 2) & 3
                        sync_model(world, sim)
                        if o.val != int.from_bytes(pl[4:4 + o.width], "little"):
                            res.violation("c04/confirmed-not-written/%s" % st, "%s: confirmed but %04x:%02x holds %x" % (what, k[0], k[1], o.val), sim=sim)
                            return False
                if is_init_req and (r[0] & 0xE0) == 0x40 and (r[0] & 0x02):
                    k = (pl[1] | (pl[2] << 8), pl[3])
                    o = world.om.get(k)
                    if o is not None and o.kind in ("int", "dom", "str") and r[4:4 + o.size()] != o.bytes()[:4]:
                        res.violation("c04/upload-content/%s" % st, "%s: expedited answer does not carry %04x:%02x" % (what, k[0], k[1]), sim=sim)
                        return False
            res.nt("sweep", st, pl[:4])
    return True


def c04_toggle(res, run, world, rng, n):
    """Toggle errors at every position, in both directions."""
    sim = run.sim
    for t in range(n):
        sync_model(world, sim)
        o = world.pick(lambda o: o.kind == "dom" and o.writable and o.readable and 15 <= len(o.data) <= 1000)
        nseg = (len(o.data) + 6) // 7
        k = rng.randrange(nseg)
        m = RC.mux(o.idx, o.sub)
        up = rng.random() < 0.5
        res.evals += 1
        if up:
            resp = run.step(0, bytes([0x40]) + m + bytes(4))
            tg = 0
            for i in range(k):
                run.step(0, bytes([0x60 | (tg << 4)]) + bytes(7)); tg ^= 1
            resp = run.step(0, bytes([0x60 | ((tg ^ 1) << 4)]) + bytes(7))
        else:
            data = gen.rand_bytes(rng, len(o.data))
            run.step(0, bytes([0x21]) + m + le32(len(data)))
            tg = 0
            for i in range(k):
                run.step(0, bytes([tg << 4]) + data[7 * i:7 * i + 7]); tg ^= 1
            resp = run.step(0, bytes([(tg ^ 1) << 4]) + data[7 * k:7 * k + 7])
        what = "%s of %04x:%02x, wrong toggle at segment %d" % ("upload" if up else "download", o.idx, o.sub, k + 1)
        if len(resp) != 1 or parse_abort(resp[0]) != E_TBIT:
            res.violation("c04/verdict/toggle/%s" % ("up" if up else "down"), "%s: expected abort 0503 0000h, got %s" % (what, [r.hex() for r in resp]), sim=sim)
            return False
        # transfer is terminated: the next segment request must be refused as well
        resp = run.step(0, bytes([0x60 | (tg << 4)]) + bytes(7) if up else bytes([tg << 4]) + bytes(7))
        if len(resp) != 1 or parse_abort(resp[0]) is None:
            res.violation("c04/toggle-not-terminated/%s" % ("up" if up else "down"), "%s: following segment answered %s" % (what, [r.hex() for r in resp]), sim=sim)
            return False
        res.nt("toggle", up, o.idx, o.sub, k)
        res.counters["toggle_errors"] += 1
    return True


def c04_work(item, ctx):
    res = F.Res()
    kind = item[0]
    two = kind in ("matrix2", "toggle2")
    exe = ctx["exes"]["asan2" if two else "asan"]
    rng = random.Random(F.seed_for(ctx["seed"], "C04", *item))
    world = World(rng, ns=2 if two else 1, small=(kind not in ("matrix", "matrix2")))
    sim = S.Sim(exe, world.cfg)
    run = Runner(res, sim, world, "C04")
    try:
        if two:
            # two servers: the requests go to one server while the other one has a transfer open (initiate answered, not finished) on an
            # object of its own - "a positive response to an initiate request always concerns the object named in that request"
            sv = item[1] % 2
            run.remap = {0: sv}
            how = rng.choice(["segup", "blkup", "segdown"])
            o_ = world.pick(lambda o: o.kind == "dom" and o.readable and o.size() > 14 and (how != "segdown" or o.writable))
            fr_ = {"segup": bytes([0x40]) + RC.mux(o_.idx, o_.sub) + bytes(4), "blkup": bytes([0xA0]) + RC.mux(o_.idx, o_.sub) + bytes([4, 0, 0, 0]),
                   "segdown": bytes([0x21]) + RC.mux(o_.idx, o_.sub) + (9).to_bytes(4, "little")}[how]
            evs_ = sim.rx(world.req_id(1 - sv), fr_)
            got_ = [(cid, d) for (t, cid, dlc, d, f) in S.txs(evs_)]
            if len(got_) != 1 or got_[0][0] != world.resp_id(1 - sv) or got_[0][1][0] == 0x80:
                res.inconclusive.append("could not open a transfer on the other server: %r" % got_)
                return res
            res.counters["requests_beside_open_transfer_on_other_server"] += 1
            # (the object of the open transfer is left alone meanwhile: one object under two servers is the recorded finding of C02)
            hidden = world.om.pop((o_.idx, o_.sub))
            if kind == "matrix2":
                c04_matrix(res, run, world, rng, item[2])
            else:
                c04_toggle(res, run, world, rng, item[2])
            world.om[(o_.idx, o_.sub)] = hidden
            # the transfer left open on the other server is still there and still its own: the next segment / block is served
            nxt = {"segup": bytes([0x60]) + bytes(7), "blkup": bytes([0xA3]) + bytes(7), "segdown": bytes([0x00]) + bytes(7)}[how]
            evs_ = sim.rx(world.req_id(1 - sv), nxt)
            got_ = [(cid, d) for (t, cid, dlc, d, f) in S.txs(evs_)]
            ok_ = bool(got_) and all(cid == world.resp_id(1 - sv) for cid, d in got_) and got_[0][1][0] != 0x80
            if ok_ and how == "segup":
                ok_ = got_[0][1][1:8] == o_.bytes()[:7]
            if ok_ and how == "blkup":
                segs = (o_.size() + 6) // 7
                ok_ = len(got_) == min(4, segs)
                for i_, (cid, d) in enumerate(got_):
                    part = o_.bytes()[7 * i_:7 * i_ + 7]
                    ok_ = ok_ and d[0] == ((i_ + 1) | (0x80 if i_ + 1 == segs else 0)) and d[1:1 + len(part)] == part
            if not ok_:
                res.violation("c04/two-servers/open-transfer-disturbed", "%s of %04x:%02x left open on server %d while server %d was used: continuation answered %r" % (
                    how, o_.idx, o_.sub, 1 - sv, sv, [("%x" % c, d.hex()) for c, d in got_][:5]), sim=sim)
            res.nt(kind, item[1], how)
            return res
        if kind == "rejected":
            c04_rejected_values(res, run, world, rng)
            return res
        if kind == "nodeid":
            # the node id is changed by the application between CONodeInit and CONodeStart (CONmtSetNodeId): the server answers on the
            # response identifier of the NEW id to requests on the request identifier of the new id, and to nothing else
            old_id = world.nid
            new_id = rng.choice([x for x in (1, 2, 17, 64, 126, 127) if x != old_id])
            sim.cmd("restart")
            sim.cmd("setnodeid %d" % new_id)
            sim.cmd("start")
            rd = bytes([0x40, 0x00, 0x10, 0x00, 0, 0, 0, 0])
            for rid, want in ((0x600 + new_id, [0x580 + new_id]), (0x600 + old_id, [])):
                evs = sim.rx(rid, rd)
                got = [cid for (t, cid, dlc, d, f) in S.txs(evs)]
                res.evals += 1
                if got != want:
                    res.violation("c04/count/node-id-changed", "node id changed from %d to %d before the start: request on %x answered on %r, reference %r" % (
                        old_id, new_id, rid, ["%x" % c for c in got], ["%x" % c for c in want]), sim=sim)
                    return res
            res.nt("nodeid", old_id, new_id)
            return res
        if kind == "sdoid":
            # the server's own COB-IDs (1200h:1/2, writable in this dictionary): a valid COB-ID may only be replaced by an invalid one -
            # 0609 0030h, and like every refused request it changes nothing: read-back, the identifiers the server works with, and what
            # the server works with after the next reset communication (which reads the dictionary again)
            sim.close()
            nid_ = rng.choice([1, 2, 60, 127])
            cfg = S.Config(nodeid=nid_, freq=1000, tmrnum=8)
            gen.add_mandatory(cfg, ssdo=1, ssdo_rw=True)
            cfg.add(S.var(0x2000, 0, S.RW, 4, 0x11223344))
            cfg.finalize()
            sim = S.Sim(exe, cfg)
            rq, rs = 0x600 + nid_, 0x580 + nid_
            def answered(rid):
                evs_ = sim.rx(rid, bytes([0x40, 0x00, 0x20, 0x00, 0, 0, 0, 0]))
                return [cid for (t, cid, dlc, d, f) in S.txs(evs_)]
            for sub, cur in ((1, rq), (2, rs)):
                for newv in (cur + 0x10, (cur + 0x21) & 0x7FF, cur | 0x20000000):
                    code, _ = S.sdo_write(sim, nid_, 0x1200, sub, newv, 4)
                    back, _ = S.sdo_read(sim, nid_, 0x1200, sub)
                    res.evals += 1
                    if code != 0x06090030 or back != cur:
                        res.violation("c04/sdo-id/refused-write", "write of the valid COB-ID %x over the valid %x to 1200h:%d answered %r (reference 0609 0030h), read-back %r" % (
                            newv, cur, sub, "%08x" % code if isinstance(code, int) else code, "%x" % back if isinstance(back, int) else back), sim=sim)
                        return res
            for phase in ("after the refused writes", "after reset communication", "after the restart on the RAM as it is"):
                if phase == "after reset communication":
                    sim.rx(0, bytes([130, nid_]))
                elif phase.startswith("after the restart"):
                    sim.cmd("reinit"); sim.cmd("start")
                got = (answered(rq), answered(rq + 0x10), answered((rq + 0x21) & 0x7FF))
                res.evals += 1
                if got != ([rs], [], []):
                    res.violation("c04/sdo-id/refused-write-effect", "%s the server answers %r to requests on %x / %x / %x, reference [[%x], [], []]" % (
                        phase, [["%x" % c for c in g] for g in got], rq, rq + 0x10, (rq + 0x21) & 0x7FF, rs), sim=sim)
                    return res
            res.nt("sdoid", nid_)
            return res
        if kind == "sdoid-stored":
            # the server's COB-IDs live in a parameter group: after 'save' and a power cycle (and after a reset communication) the server
            # is enabled with what 1200h:1/2 say - the values a client reads there - not with the compile-time ones
            sim.close()
            nid_ = rng.choice([1, 2, 60, 100])
            cfg = S.Config(nodeid=nid_, freq=1000, tmrnum=8)
            gen.add_mandatory(cfg, ssdo=0)
            ram = (0x600).to_bytes(4, "little") + (0x580).to_bytes(4, "little")
            cfg.paras.append((0, 0, 8, 2, 1, False, ram, None))
            cfg.add(S.var(0x1200, 0, S.D | S.R, 1, 2))
            cfg.add(S.Obj(0x1200, 1, S.N | S.RW, "sdoid", "G", 0, 0, 4))
            cfg.add(S.Obj(0x1200, 2, S.N | S.RW, "sdoid", "G", 0, 4, 4))
            cfg.add(S.var(0x1010, 0, S.D | S.R, 1, 1, "parastore"))
            cfg.add(S.Obj(0x1010, 1, S.RW, "parastore", "P", 0))
            cfg.add(S.var(0x2000, 0, S.RW, 4, 0x11223344))
            cfg.nvm = (16, ram + bytes([0xFF]) * 8)
            cfg.finalize()
            sim = S.Sim(exe, cfg)
            off = rng.choice([0x10, 0x20, 0x15])
            rq0, rs0, rq1, rs1 = 0x600 + nid_, 0x580 + nid_, 0x600 + nid_ + off, 0x580 + nid_ + off
            def answered(rid):
                evs_ = sim.rx(rid, bytes([0x40, 0x00, 0x20, 0x00, 0, 0, 0, 0]))
                return [cid for (t, cid, dlc, d, f) in S.txs(evs_)]
            if answered(rq0) != [rs0]:
                res.inconclusive.append("sdoid-stored: server does not answer at the start"); return res
            # re-configure: invalidate through the server itself, the rest through the dictionary API (the server is off then), store
            code, _ = S.sdo_write(sim, nid_, 0x1200, 1, 0x80000000 | rq0, 4)
            steps = [sim.ret("wr 1200 2 4 %x" % (0x80000000 | rs0)), sim.ret("wr 1200 2 4 %x" % rs1), sim.ret("wr 1200 1 4 %x" % rq1), sim.ret("wr 1010 1 4 65766173")]
            if code is not None or any(r_[0] != "0" for r_ in steps):
                res.inconclusive.append("sdoid-stored: set-up refused %r %r" % (code, steps)); return res
            for phase in ("after the re-configuration", "after the power cycle", "after reset communication"):
                if phase == "after the power cycle":
                    sim.cmd("restart"); sim.cmd("start")
                elif phase == "after reset communication":
                    sim.rx(0, bytes([130, nid_]))
                back = (int(sim.ret("rd 1200 1 4")[1], 16), int(sim.ret("rd 1200 2 4")[1], 16))
                got = (answered(rq1), answered(rq0))
                res.evals += 1
                if back != (rq1, rs1) or got != ([rs1], []):
                    res.violation("c04/sdo-id/stored", "%s 1200h:1/2 read %x / %x (stored: %x / %x); requests on %x / %x are answered on %r / %r, reference [%x] / []" % (
                        phase, back[0], back[1], rq1, rs1, rq1, rq0, ["%x" % c for c in got[0]], ["%x" % c for c in got[1]], rs1), sim=sim)
                    return res
            res.nt("sdoid-stored", nid_, off)
            return res
        if kind == "index":
            _, lo, hi, subs = item
            c04_sweep_indices(res, run, world, lo, hi, subs)
            res.nt("index", lo, hi)
            if lo == 0x2000:
                res.sample({"index_sweep": "uploads of %04x..%04x subs %r" % (lo, hi, subs)})
        elif kind == "matrix":
            c04_matrix(res, run, world, rng, item[2])
            if item[1] == 0:
                res.sample({"access_matrix": "every request kind x size class on objects and their absent neighbours", "objects": len(world.om)})
        elif kind == "sweep":
            _, st, c0, n = item
            c04_state_sweep(res, run, world, rng, st, range(c0, c0 + n))
            if c0 == 0x40 and st == "segup":
                res.sample({"state_sweep": st, "commands": "%02x..%02x x 6 payloads" % (c0, c0 + n - 1)})
        elif kind == "toggle":
            c04_toggle(res, run, world, rng, item[2])
    except S.SimDied as e:
        res.violation("c04/crash/" + e.signature, "executor died: " + e.signature, sim=sim, detail=e.detail[-2000:])
    finally:
        sim.close()
    return res


# ------------------------------------------------------------------- C05
def covering_transfer(rng, world, i):
    """(kind, object, ...) cycling through exp/seg/blk x up/down x small/large/domain/string."""
    kinds = ["up-int", "dn-int-exp", "up-str-seg", "up-dom-blk", "dn-dom-seg", "dn-dom-blk", "up-str-blk", "dn-int-seg", "dn-int-blk", "up-dom-small", "dn-dom-small"]
    return kinds[i % len(kinds)]


def c05_probe(res, run, world, rng, i, sim, sv=0):
    k = covering_transfer(rng, world, i)
    sync_model(world, sim)
    desc = k
    if k.startswith("up"):
        if k == "up-int":
            o = world.pick(lambda o: o.kind == "int" and o.readable); mode, opts = "normal", {}
        elif k == "up-str-seg":
            o = world.pick(lambda o: o.kind == "str" and o.size() > 4); mode, opts = "normal", {}
        elif k == "up-str-blk":
            o = world.pick(lambda o: o.kind == "str"); mode, opts = "blk", {"blksize": rng.choice([1, 3, 127]), "ack": "rand"}
        elif k == "up-dom-small":
            o = world.pick(lambda o: o.kind == "dom" and o.readable and o.size() <= 4); mode, opts = "normal", {}
        else:
            o = world.pick(lambda o: o.kind == "dom" and o.readable); mode, opts = "blk", {"blksize": rng.choice([2, 20, 127]), "ack": "rand", "vary": True}
        out = run.transfer(sv, make_upload(rng, o, mode, opts))
        desc = "%s %04x:%02x" % (k, o.idx, o.sub)
        if out.kind != "ok" or out.data != o.bytes():
            return desc, "upload outcome %r, expected %d bytes %s.." % (out, o.size(), o.bytes()[:8].hex())
    else:
        if k == "dn-int-exp":
            o = world.pick(lambda o: o.kind == "int" and o.writable); mode = "exp"
        elif k == "dn-int-seg":
            o = world.pick(lambda o: o.kind == "int" and o.writable); mode = "seg"
        elif k == "dn-int-blk":
            o = world.pick(lambda o: o.kind == "int" and o.writable); mode = "blk"
        elif k == "dn-dom-small":
            o = world.pick(lambda o: o.kind == "dom" and o.writable and o.size() <= 4); mode = rng.choice(["exp", "seg", "blk"])
        else:
            o = world.pick(lambda o: o.kind == "dom" and o.writable and o.size() > 7); mode = "seg" if k == "dn-dom-seg" else "blk"
        ln = o.width if o.kind == "int" else rng.randint(1 if o.size() <= 4 else 5, o.size())
        payload = gen.rand_bytes(rng, ln)
        out = run.transfer(sv, make_download(rng, o, payload, mode, True, {"lose": rng.choice(["none", "first"])}))
        desc = "%s %04x:%02x %d bytes" % (k, o.idx, o.sub, ln)
        if out.kind != "ok":
            return desc, "download outcome %r" % out
        apply_download(o, payload)
        bad = world.check_dump(sim)
        if bad:
            return desc, "storage after download differs: %r" % bad[:2]
    return desc, None


def c05_work(item, ctx):
    res = F.Res()
    kind, idx, nprobes = item
    two = kind == "probe2"        # two servers (CO_SSDO_N = 2): history, recovery and clean transfer on either of them
    exe = ctx["exes"]["asan2" if two else "asan"]
    rng = random.Random(F.seed_for(ctx["seed"], "C05", kind, idx))
    resetdev = idx % 5 == 4
    world = World(rng, ns=2 if two else 1, small=rng.random() < 0.5, resetdev=resetdev)
    sim = S.Sim(exe, world.cfg)
    run = Runner(res, sim, world, "C05")
    g = H.Hostile(rng, world.cfg, 1)
    g.muxes = list(world.om.keys())
    try:
        prefix_log = []
        for p in range(nprobes):
            sv = rng.randrange(2) if two else 0
            # hostile prefix: raw SDO frames, mutated dialogues, ticks
            lines = []
            for _ in range(rng.choice([1, 2, 3, 5, 10, 30])):
                x = rng.random()
                if x < 0.55:
                    lines.append(g.sdo_frame(0))
                elif x < 0.9:
                    d = g.sdo_dialogue()
                    cut = rng.randint(1, len(d)) if d else 0
                    lines += d[:cut] if len(d) < 400 else d[:rng.randint(1, 140)]
                else:
                    lines.append("tick %d" % rng.choice([1, 10, 100]))
            if rng.random() < 0.15:
                # reconfiguration of the SDO client parameters through this server: no concern of the server itself
                v = rng.choice([0x80000000, 0x80000600, 0x600, 0x580, 0x80000580, 0x67F]) + rng.choice([0, 2, world.nid])
                lines.insert(rng.randint(0, len(lines)), "rx %x 8 %s" % (g.sdo_req_id(0), (bytes([0x23, 0x80, 0x12, rng.choice([1, 2])]) + (v & 0xFFFFFFFF).to_bytes(4, "little")).hex()))
                res.counters["client_parameter_writes"] += 1
            lines = [l.replace("rx %x " % g.sdo_req_id(0), "rx %x " % world.req_id(sv if (not two or rng.random() < 0.8) else 1 - sv)) for l in lines]
            if rng.random() < 0.35:
                lines += server_abort_ending(rng, world, sv)
            reset_inside = resetdev and rng.random() < 0.3
            if reset_inside:
                # a block download to the object whose write function resets the communication: the reset happens inside the request that
                # completes the first block (127 segments) - afterwards the node is a node after a reset communication
                rid_ = world.req_id(sv)
                lines.append("rx %x 8 8000000000000008" % rid_)
                lines.append("rx %x 8 %s" % (rid_, (bytes([0xC2, 0x31, 0x21, 0x00]) + (1000).to_bytes(4, "little")).hex()))
                lines += ["rx %x 8 %s" % (rid_, (bytes([q_]) + gen.rand_bytes(rng, 7)).hex()) for q_ in range(1, 128)]
            ended_by_server = False
            evs_all = sim.batch(lines)
            for l_, evs in zip(lines, evs_all):
                for iv in S.invs(evs):
                    res.violation("c05/inv/" + iv.split()[0], "invariant during hostile prefix: " + iv, sim=sim)
                    return res
                if l_.startswith("rx %x " % world.req_id(sv)):
                    # the server itself ended whatever was going on when its answer to the last request is an abort
                    fr_ = [d for (t, cid, dlc, d, f) in S.txs(evs) if cid == world.resp_id(sv)]
                    ended_by_server = len(fr_) == 1 and len(fr_[0]) == 8 and fr_[0][0] == 0x80
            res.counters["hostile_frames"] += len(lines)
            st = sim.state()["sdo%d" % sv].split(",")
            tup = (st[0], st[1], st[2], int(st[3]) > 0, min(int(st[4]), 900) // 100, int(st[5]) & 0x80, int(st[5]) > 0, int(st[6]) > 0, int(st[7]) != 0)
            res.states.add(tup)
            how = "abort" if rng.random() < 0.75 else "reset"
            if reset_inside:
                if not any(S.cbs(e_, "usrreset") for e_ in evs_all[-3:]):
                    res.inconclusive.append("the reset inside the write function was not reached")
                    return res
                how = "reset-inside-write"
            elif ended_by_server and rng.random() < 0.6:
                # no transfer is open after an abort by the server: the client goes on with its next transfer straight away
                how = "server-abort"
            if how in ("server-abort", "reset-inside-write"):
                pass
            elif how == "abort":
                resp = run.step(sv, RC.abort_frame(rng.choice([0, 0x2120]), 0, 0x08000000))
                if len(resp) > 1:
                    res.violation("c05/abort-answered-many", "client abort answered with %d frames" % len(resp), sim=sim)
                    return res
            else:
                sim.rx(0, bytes([130, world.nid]))
            res.evals += 1
            desc, err = c05_probe(res, run, world, rng, idx + p, sim, sv)
            res.counters["probe_" + desc.split()[0]] += 1
            res.counters["after_" + how] += 1
            if two:
                res.counters["probes_on_server_%d_of_2" % sv] += 1
            if err:
                res.violation("c05/wedged/%s/%s/blk%s-obj%s" % (how, desc.split()[0], tup[0], tup[1]),
                              "after hostile history (server state %r) and %s, clean transfer %s failed: %s" % (tup, how, desc, err), sim=sim)
                return res
            res.nt(tup, desc.split()[0], how)
            if p == 0 and idx < 2:
                res.sample({"hostile_prefix_head": lines[:6], "server_state_before_probe": list(tup), "recovery": how, "probe": desc})
    except S.SimDied as e:
        res.violation("c05/crash/" + e.signature, "executor died: " + e.signature, sim=sim, detail=e.detail[-2000:])
    finally:
        sim.close()
    return res


def configure(m, prop):
    if prop == "C04":
        m.VARIANTS = ["asan", "asan2"]
        m.RULE = ("(a) upload request for every index 0000h..FFFFh x 4 sub-indices; (b) access matrix: every request kind x size class on every "
                  "object and on absent neighbours, verdict / abort code / multiplexer / storage compared with the CiA 301 rules; (c) enumerated "
                  "protocol state (13, incl. six just-completed transfers after which the server must be idle) x command byte (256) x 7 payloads with the acceptable response counts of the relational model and "
                  "'refusal changes nothing' / 'positive initiate response concerns the named object'; (d) toggle errors at random positions; "
                  "non-trivial = refused request, state-sweep case or toggle case (distinct by request)")
        m.ASSUMPTIONS = ["behaviour CiA 301 leaves open is accepted in every listed alternative (DESIGN.md A.1): acknowledge of a client abort, "
                         "initiate during an open transfer, late abort for block download announcing too few bytes for a fixed-size object",
                         "1200h entries read-only in these dictionaries (the server cannot be disabled by the workload)"]
        m.work = c04_work

        def plan(tier, seed):
            q = tier == "quick"
            items = []
            subs = [(0, 1, 7, 255), (0, 2, 3, 128)]
            step = 1024
            for lo in range(0, 0x10000, step):
                items.append(("index", lo, lo + step, subs[(lo // step) % 2] if q else (0, 1, 2, 3, 7, 128, 255)))
            items += [("matrix", i, 40 if q else 400) for i in range(16 if q else 256)]
            for st in STATES:
                for c0 in range(0, 256, 32 if q else 16):
                    items.append(("sweep", st, c0, 32 if q else 16))
            items += [("toggle", i, 30 if q else 200) for i in range(8 if q else 32)]
            items += [("matrix2", i, 30 if q else 300) for i in range(8 if q else 128)]
            items += [("toggle2", i, 20 if q else 150) for i in range(4 if q else 16)]
            items += [("nodeid", i, 0) for i in range(4)]
            items += [("sdoid", i, 0) for i in range(4)]
            items += [("sdoid-stored", i, 0) for i in range(4)]
            items += [("rejected", i, 0) for i in range(2)]
            return items
        m.plan = plan

        def finish(total, tier):
            c = total.counters
            p = []
            if c["index_sweep_requests"] < 65536 * 4 and not total.violations:
                p.append("index sweep incomplete: %d" % c["index_sweep_requests"])
            if c["verdict_abort"] < 100:
                p.append("too few refusals exercised")
            return p
        m.finish = finish
    else:
        m.VARIANTS = ["asan", "asan2"]
        m.RULE = ("hostile SDO histories (all command bytes, mutated / truncated / interleaved dialogues, ticks) continued between probes; each "
                  "probe = [client abort | NMT reset communication | nothing, when the server's answer to the last frame of the history was an abort] followed by a clean reference transfer from a covering set (exp/seg/blk x "
                  "up/down x int/string/domain x small/large) whose outcome and storage effect must equal the reference; reachable server "
                  "states are read from the public CO_SDO structure before each probe; non-trivial = distinct (server state tuple, probe kind, recovery)")
        m.ASSUMPTIONS = ["AG EF idle is restated as: recovery succeeded from every one of the distinct reachable states observed",
                         "the model adopts the storage left by the hostile history before each clean transfer"]
        m.work = c05_work

        def plan(tier, seed):
            q = tier == "quick"
            return [("probe", i, 40 if q else 150) for i in range(96 if q else 8000)] + [("probe2", i, 40 if q else 150) for i in range(32 if q else 2000)]
        m.plan = plan

        def finish(total, tier):
            p = []
            if len(total.states) < 12:
                p.append("only %d distinct server states reached before probes" % len(total.states))
            if total.counters["after_server-abort"] < 150:
                p.append("only %d probes straight after an abort by the server" % total.counters["after_server-abort"])
            if total.counters["probes_on_server_1_of_2"] < 200:
                p.append("only %d probes on the second server" % total.counters["probes_on_server_1_of_2"])
            return p
        m.finish = finish
