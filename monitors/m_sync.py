"""C16 - SYNC consumption and production as 1005h / 1006h say."""
import random
import framework as F
import sim as S
import gen
from sim import Config, var, W, R, P, A, N, D, RW

PROP = "C16"
LEVEL = "exploration"
RULE = ("initial (1005h, 1006h) x timer frequency {100 Hz, 1 kHz, 10 kHz, 20 kHz, 1 MHz} x histories of SDO writes to 1005h/1006h (start, stop, re-time, id "
        "change while producing / idle, unresolvable and very long periods up to 2^32-1 us, valid writes after refused ones, writes while the expired SYNC event is served but not yet processed), received SYNC "
        "and near-miss frames, NMT commands incl. reset communication, ticks; produced (tick, id, dlc) SYNC frames compared tick by tick "
        "with the reference schedule, SDO verdicts with the write rules, and the reaction of a synchronous TPDO (type n) and RPDO to every "
        "received SYNC with the reference counters; non-trivial = history with >= 2 produced SYNCs and >= 1 accepted write, or >= 3 "
        "consumed SYNCs; distinct by script")
ASSUMPTIONS = ["11-bit SYNC identifiers", "only periods that are a whole number of ticks (or unresolvable) are written",
               "period 0 while producing: refusal or 'accepted, nothing produced' both accepted",
               "phase after boot-up / reset communication is open (first SYNC within one period)"]
VARIANTS = ["asan", "lean"]

PREOP, OP, STOP = 2, 3, 4
E_RANGE = 0x06090030


class SyncModel:
    def __init__(self, nid, freq, cobid, cycle):
        self.nid, self.freq = nid, freq
        self.cobid, self.cycle = cobid, cycle
        self.mode = PREOP
        self.tick_us = 1000000 // freq
        self.P = self.period(cycle) if (cobid & 0x40000000) else 0
        if self.P is None:
            self.P = 0
        self.base = None
        self.unknown_since = 0
        self.allowed_since = 0
        self.count = 0
        # synchronous PDOs
        self.tsync = 0
        self.rpdo_pending = None

    def period(self, cycle):
        """ticks (the workload writes whole numbers of ticks), or None if the timer cannot resolve it"""
        if cycle < self.tick_us:
            return None
        return cycle // self.tick_us

    def min_cycle(self):
        return self.tick_us

    def producing(self):
        return bool(self.cobid & 0x40000000)

    def sid(self):
        return self.cobid & 0x7FF

    def allowed(self):
        return self.mode in (PREOP, OP)

    def set_mode(self, mode, tick):
        was = self.allowed()
        self.mode = mode
        if self.allowed() and not was:
            self.allowed_since = tick

    def write_1005(self, v, tick):
        if self.producing():
            if (v & 0x1FFFFFFF) != (self.cobid & 0x1FFFFFFF):
                return E_RANGE
            self.cobid = v
            if not (v & 0x40000000):
                self.P = 0
            return None
        if v & 0x40000000:
            p = self.period(self.cycle)
            if self.cycle == 0:
                return "open-zero"
            if p is None or p < 1:
                return E_RANGE
            self.cobid = v
            self.P, self.base, self.unknown_since = p, tick, None
            return None
        self.cobid = v
        return None

    def write_1006(self, c, tick):
        if self.producing():
            if c == 0:
                return "open-zero"
            p = self.period(c)
            if p is None or p < 1:
                return E_RANGE
            self.cycle = c
            self.P, self.base, self.unknown_since = p, tick, None
            return None
        self.cycle = c
        return None

    def on_reset(self, tick):
        self.P = (self.period(self.cycle) or 0) if self.producing() else 0
        self.base = None
        self.unknown_since = tick
        self.tsync = 0
        self.rpdo_pending = None

    def check_ticks(self, t0, t1, emitted):
        if self.P == 0 or (self.base is not None and not emitted):
            # fast path for long silent stretches
            if self.P == 0:
                if emitted:
                    return "tick %d: SYNC produced although production is off" % min(emitted)
                return None
        ticks = sorted(set(emitted))
        cur = t0
        # walk only the interesting ticks: emissions and due ticks
        events = set(ticks)
        if self.base is not None:
            k = (t0 - self.base) // self.P + 1
            t = self.base + k * self.P
            while t <= t1:
                events.add(t); t += self.P
        elif self.allowed():
            events.add(max(self.unknown_since, self.allowed_since) + self.P)
        for t in sorted(e for e in events if t0 < e <= t1):
            got = emitted.get(t, 0)
            if got > 1:
                return "tick %d: %d SYNC frames in one tick" % (t, got)
            if got and not self.allowed():
                return "tick %d: SYNC produced in a state that does not allow it" % t
            if self.base is not None:
                due = t > self.base and (t - self.base) % self.P == 0
                if due and self.allowed() and not got:
                    return "tick %d: SYNC missing (period %d ticks counted from tick %d)" % (t, self.P, self.base)
                if got and not due:
                    return "tick %d: SYNC off schedule (period %d ticks counted from tick %d)" % (t, self.P, self.base)
            else:
                if got:
                    if t - max(self.unknown_since, self.allowed_since) > self.P:
                        return "tick %d: first SYNC %d ticks after the (re)start, period %d" % (t, t - max(self.unknown_since, self.allowed_since), self.P)
                    self.base = t
                elif self.allowed() and t - self.unknown_since >= self.P and t - self.allowed_since >= self.P:
                    return "tick %d: no SYNC within one period (%d ticks) after the (re)start at tick %d" % (t, self.P, self.unknown_since)
            if got:
                self.count += 1
        return None


def cycles_for(freq, rng):
    tick_us = 1000000 // freq
    good = [tick_us * k for k in (1, 2, 3, 5, 10, 50, 100, 700)]
    good += [c for c in (10000000, 70000000, 1000000000, 4294960000) if c % tick_us == 0 and (c // tick_us) <= 500000]
    bad = [c for c in (1, 50, 99, tick_us - 100, tick_us // 2, tick_us - 1) if 0 < c < tick_us]
    return good, bad


def run_history(res, exe, rng, first):
    nid = rng.choice([1, 9])
    freq = rng.choice([100, 1000, 1000, 10000, 20000, 1000000])      # 20 kHz / 1 MHz: ticks of 50 us / 1 us, periods that are no multiple of 100 us
    good, bad = cycles_for(freq, rng)
    ttype = rng.choice([1, 1, 2, 3, 5])
    cob0 = rng.choice([0x80, 0x80, 0x40000080, 0x100, 0x40000100])
    cyc0 = rng.choice(good[:6] + [0]) if not (cob0 & 0x40000000) else rng.choice(good[:6])
    cfg = Config(nodeid=nid, freq=freq, tmrnum=rng.choice([1, 16, 16]))               # 1: exactly the timer the SYNC producer needs
    gen.add_mandatory(cfg, hb=0, sync_id=cob0, sync_cycle=cyc0, ssdo=1, ssdo_rw=False)
    cfg.add(var(0x2000, 0, RW | P, 1, 0x11))
    cfg.add(var(0x2001, 0, RW | P, 1, 0x42))
    gen.add_rpdo(cfg, 0, 0x200, 1, [gen.maplink(0x2000, 0, 8)])
    gen.add_tpdo(cfg, 0, 0x40000180, ttype, 0, 0, [gen.maplink(0x2001, 0, 8)])
    cfg.finalize()
    sim = S.Sim(exe, cfg)
    m = SyncModel(nid, freq, cob0, cyc0)
    script = []
    acc = cons = 0
    rv = [0x11]            # value of the object the synchronous RPDO writes
    rp_valid = [True]

    def fail(key, msg, exp=None, obs=None):
        res.violation("c16/" + key, "node %d %d Hz 1005h=%x 1006h=%d tpdo type %d: %s | script: %s" % (nid, freq, cob0, cyc0, ttype, msg, "; ".join(script[-7:])),
                      sim=sim, expected=exp, observed=obs)

    def observe(t0, evs, ignore_ids=()):
        emitted = {}
        for (t, cid, dlc, d, f) in S.txs(evs):
            if cid in ignore_ids:
                continue
            if cid == m.sid() and cid not in (0x580 + nid,):
                if dlc != 0:
                    return "SYNC frame with DLC %d" % dlc
                emitted[t] = emitted.get(t, 0) + 1
        for iv in S.invs(evs):
            return "invariant " + iv
        if sim.tick == t0:
            return "SYNC produced outside timer processing" if emitted else None
        err = m.check_ticks(t0, sim.tick, emitted)
        if err:
            return err
        # a SYNC the node produces itself is a SYNC for its own synchronous PDOs, too: in OPERATIONAL every produced SYNC advances
        # the schedule of the synchronous TPDO once and applies a buffered synchronous RPDO
        tp = {}
        for (t, cid, dlc, d, f) in S.txs(evs):
            if cid == 0x180 + nid and cid != m.sid():
                tp[t] = tp.get(t, 0) + 1
        want = {}
        if m.mode == OP:
            for t in sorted(emitted):
                for _ in range(emitted[t]):
                    m.tsync += 1
                    if m.tsync == ttype:
                        m.tsync = 0
                        want[t] = want.get(t, 0) + 1
                    if m.rpdo_pending is not None:
                        rv[0] = m.rpdo_pending
                        m.rpdo_pending = None
        if tp != want:
            return "synchronous TPDO (type %d) frames at ticks %r, reference %r for the SYNCs produced at %r" % (ttype, sorted(tp.items())[:6], sorted(want.items())[:6], sorted(emitted)[:8])
        return None

    try:
        for i in range(rng.choice([25, 50, 90])):
            x = rng.random()
            t0 = sim.tick
            if x < 0.34:
                n = rng.choice([1, 2, 3, 10, 49, 50, 101, 1500])
                if m.P > 1000 and rng.random() < 0.5:
                    n = int(m.P * rng.choice([0.6, 1.0, 2.2]))
                script.append("tick %d" % n)
                evs = sim.cmd("tick %d" % n)
                err = observe(t0, evs)
                if err:
                    fail("schedule/" + ("after-write" if m.unknown_since is None else "after-reset"), err); return
            elif x < 0.39:
                # production stopped / re-timed while the expired SYNC event is served but not yet processed: the pending SYNC may
                # still go out in that processing step (it fell due on this tick); from the write on only the new setting counts
                if not (m.allowed() and m.producing() and m.P > 0 and m.base is not None):
                    continue
                d = m.P - ((sim.tick - m.base) % m.P)
                if d > 400:
                    continue
                evs = sim.cmd("svc %d" % d)
                if any(cid == m.sid() for (t, cid, dlc, dd, f) in S.txs(evs)):
                    fail("schedule/deferred", "SYNC sent by the tick service itself"); return
                T = sim.tick
                sid_before = m.sid()
                if rng.random() < 0.5:
                    v = m.cobid ^ 0x40000000
                    script.append("svc %d; write 1005 = %x with the SYNC event pending; tproc" % (d, v))
                    want = m.write_1005(v, T)
                    code, evs = S.sdo_write(sim, nid, 0x1005, 0, v, 4)
                else:
                    c = rng.choice(good[:7])
                    script.append("svc %d; write 1006 = %d with the SYNC event pending; tproc" % (d, c))
                    want = m.write_1006(c, T)
                    code, evs = S.sdo_write(sim, nid, 0x1006, 0, c, 4)
                if code != want:
                    fail("verdict/pending", "write with pending SYNC event answered %r, reference %r" % (code, want)); return
                acc += 1
                evs = evs + sim.cmd("tproc")
                sy = [(t, dlc) for (t, cid, dlc, dd, f) in S.txs(evs) if cid == sid_before]
                if len(sy) > 1 or any(t != T or dlc != 0 for t, dlc in sy):
                    fail("schedule/deferred-write", "write with the expired SYNC event pending (tick %d): SYNC frames %r" % (T, sy)); return
                m.count += len(sy)
                res.counters["writes_with_pending_event"] += 1
                res.counters["pending_sync_still_sent"] += len(sy)
            elif x < 0.52:
                # write 1005h
                if m.mode not in (PREOP, OP):
                    continue
                cur = m.cobid
                v = rng.choice([cur ^ 0x40000000, cur ^ 0x40000000, (cur & 0x40000000) | rng.choice([0x80, 0x100, 0x7F]), cur,
                                (cur ^ 0x40000000) & 0x40000000 | rng.choice([0x80, 0x100, 0x7F, 0x81])])      # toggle production AND change the CAN-ID in one write
                script.append("write 1005 = %x (was %x)" % (v, cur))
                want = m.write_1005(v, sim.tick)
                code, evs = S.sdo_write(sim, nid, 0x1005, 0, v, 4)
                if want == "open-zero":
                    if code is None:
                        m.cobid = v; m.P = 0
                elif code != want:
                    fail("verdict/1005/%s" % ("refused" if want is None else "accepted" if code is None else "code"),
                         "write answered %s, reference %s" % ("%08x" % code if isinstance(code, int) else code, "%08x" % want if want else "confirmed"), want, code); return
                if want is None and code is None:
                    acc += 1
                err = observe(t0, evs)
                if err:
                    fail("schedule/write", err); return
                # read back: a refused write keeps the previous value
                v2, _ = S.sdo_read(sim, nid, 0x1005, 0)
                if v2 != m.cobid:
                    fail("readback/1005", "1005h reads %r, reference %x" % (v2, m.cobid)); return
                # the identifier the node listens to is the stored one - also after a refused write
                for cid in (m.sid(), v & 0x7FF):
                    if m.allowed() and cid != 0x200 + nid:
                        evs = sim.rx(cid, b"")
                        is_sync = cid == m.sid()
                        if is_sync:
                            cons += 1
                            if m.mode == OP:
                                m.tsync += 1
                                if m.tsync == ttype:
                                    m.tsync = 0
                                if m.rpdo_pending is not None:
                                    rv[0] = m.rpdo_pending
                                    m.rpdo_pending = None
                        ncan = len(S.cbs(evs, "canrx"))
                        if is_sync == bool(ncan):
                            fail("consume/after-write/%s" % ("refused" if code is not None else "accepted"),
                                 "after the write of %x to 1005h (%s) frame %x is %s, stored SYNC identifier is %x" % (
                                     v, "refused" if code is not None else "accepted", cid, "handed to the application" if ncan else "consumed as SYNC", m.sid())); return
            elif x < 0.72:
                if m.mode not in (PREOP, OP):
                    continue
                c = rng.choice(good + good + bad + [0]) if rng.random() < 0.9 else rng.choice(bad or good)
                script.append("write 1006 = %d (was %d, %s)" % (c, m.cycle, "producing" if m.producing() else "idle"))
                want = m.write_1006(c, sim.tick)
                code, evs = S.sdo_write(sim, nid, 0x1006, 0, c, 4)
                if want == "open-zero":
                    if code is None:
                        m.cycle = 0; m.P = 0
                elif code != want:
                    fail("verdict/1006/%s" % ("refused" if want is None else "accepted" if code is None else "code"),
                         "write answered %s, reference %s" % ("%08x" % code if isinstance(code, int) else code, "%08x" % want if want else "confirmed"), want, code); return
                if want is None and code is None:
                    acc += 1
                err = observe(t0, evs)
                if err:
                    fail("schedule/write", err); return
                v2, _ = S.sdo_read(sim, nid, 0x1006, 0)
                if v2 != m.cycle:
                    fail("readback/1006", "1006h reads %r, reference %d" % (v2, m.cycle)); return
            elif x < 0.735 and m.mode in (PREOP, OP):
                # a segmented download that delivers only two of the four bytes of 1005h / 1006h: refused, nothing changes
                idx = rng.choice([0x1005, 0x1006])
                two = rng.choice([bytes([0x80, 0x00]), bytes([0x00, 0x40]), bytes([0x10, 0x27])])
                script.append("2-byte segmented download %s to %x" % (two.hex(), idx))
                rid = 0x600 + nid
                sim.rx(rid, bytes([0x20, idx & 0xFF, idx >> 8, 0, 0, 0, 0, 0]))
                evs = sim.rx(rid, bytes([0x0B]) + two + bytes(5))
                ans = [d for (t, c, dlc, d, f) in S.txs(evs) if c == 0x580 + nid]
                if not ans or ans[0][0] != 0x80:
                    fail("verdict/short-download", "two bytes written to %xh by segmented download answered %r, reference abort" % (idx, [a.hex() for a in ans])); return
                sim.cmd("geterr")
                v2, _ = S.sdo_read(sim, nid, idx, 0)
                if v2 != (m.cobid if idx == 0x1005 else m.cycle):
                    fail("readback/short-download", "%xh reads %r after the refused short download, reference %x" % (idx, v2, m.cobid if idx == 0x1005 else m.cycle)); return
                err = observe(t0, [e for e in evs if not (e[0] == "tx" and int(e[2], 16) == 0x580 + nid)])
                if err:
                    fail("schedule/short-download", err); return
                res.counters["short_downloads_refused"] += 1
            elif x < 0.745 and m.mode == OP:
                # a long run of SYNCs (more than 256 without restart): the n-th-SYNC schedule of the synchronous TPDO does not drift
                n = rng.choice([260, 300, 520])
                script.append("%d SYNCs in a row" % n)
                outs = sim.batch(["rx %x 0 -" % m.sid()] * n)
                for j, evs in enumerate(outs):
                    cons += 1
                    m.tsync += 1
                    want_tx = []
                    if m.tsync == ttype:
                        m.tsync = 0
                        want_tx = [(0x180 + nid, bytes([0x42]))]
                    if m.rpdo_pending is not None:
                        rv[0] = m.rpdo_pending
                        m.rpdo_pending = None
                    got = [(c, d) for (t, c, dlc, d, f) in S.txs(evs)]
                    if got != want_tx:
                        fail("consume/tpdo-long-run", "SYNC no. %d of a run of %d: transmitted %r, reference %r (synchronous TPDO type %d)" % (
                            j + 1, n, [("%x" % c, d.hex()) for c, d in got], [("%x" % c, d.hex()) for c, d in want_tx], ttype)); return
                res.counters["long_sync_runs"] += 1
            elif x < 0.88:
                # received frame: SYNC or near miss; a fresh RPDO first in half of the cases
                if rng.random() < 0.12 and m.mode in (PREOP, OP):
                    # the synchronous RPDO (number 0, like the synchronous TPDO) is switched off / on between two SYNCs: the TPDO's
                    # count of SYNCs is not its business
                    rp_valid[0] = not rp_valid[0]
                    v = (0x200 + nid) | (0 if rp_valid[0] else 0x80000000)
                    script.append("write 1400:1 = %x" % v)
                    code, _ = S.sdo_write(sim, nid, 0x1400, 1, v, 4)
                    if code is not None:
                        fail("rpdo-cobid-write-refused", "COB-ID valid toggle of the RPDO refused: %r" % code); return
                    m.rpdo_pending = None
                    res.counters["rpdo_switched_between_syncs"] += 1
                if rng.random() < 0.5 and m.mode == OP:
                    pv = rng.getrandbits(8)
                    sim.rx(0x200 + nid, bytes([pv]))
                    if rp_valid[0]:
                        m.rpdo_pending = pv
                    script.append("rpdo %02x" % pv)
                cid = rng.choice([m.sid(), m.sid(), m.sid(), m.sid() + 1, m.sid() - 1, 0x80, 0x100])
                script.append("rx %x" % cid)
                evs = sim.rx(cid, b"")
                is_sync = cid == m.sid() and m.allowed()
                want_tx = []
                if is_sync:
                    cons += 1
                    if m.mode == OP:
                        m.tsync += 1
                        if m.tsync == ttype:
                            m.tsync = 0
                            want_tx = [(0x180 + nid, bytes([0x42]))]
                        if m.rpdo_pending is not None:
                            rv[0] = m.rpdo_pending
                            m.rpdo_pending = None
                got = [(c, d) for (t, c, dlc, d, f) in S.txs(evs)]
                if got != want_tx:
                    fail("consume/tpdo", "frame %x in mode %d: transmitted %r, reference %r (synchronous TPDO type %d, SYNC counter %d)" % (
                        cid, m.mode, [("%x" % c, d.hex()) for c, d in got], [("%x" % c, d.hex()) for c, d in want_tx], ttype, m.tsync)); return
                ncan = len(S.cbs(evs, "canrx"))
                if is_sync and ncan:
                    fail("consume/unclaimed", "SYNC frame handed to the application"); return
                if not is_sync and m.allowed() and ncan != 1 and cid != 0x200 + nid:
                    fail("consume/near-miss", "frame %x (SYNC id is %x) not handed to the application" % (cid, m.sid())); return
                r = sim.ret("rd 2000 0 1")
                if int(r[1], 16) != rv[0]:
                    fail("consume/rpdo", "object 2000h = %s, reference %x" % (r[1], rv[0])); return
            else:
                cs = rng.choice([1, 1, 2, 128, 130])
                script.append("nmt %d" % cs)
                evs = sim.rx(0, bytes([cs, nid]))
                old = m.mode
                if cs == 1:
                    m.set_mode(OP, sim.tick)
                    if old != OP:
                        m.tsync = 0; m.rpdo_pending = None
                elif cs == 2:
                    m.set_mode(STOP, sim.tick)
                elif cs == 128:
                    m.set_mode(PREOP, sim.tick)
                else:
                    m.set_mode(STOP, sim.tick); m.set_mode(PREOP, sim.tick); m.on_reset(sim.tick)
                err = observe(t0, evs, ignore_ids=(0x700 + nid,))
                if err:
                    fail("schedule/nmt", err); return
        res.evals += 1
        res.counters["syncs_produced"] += m.count
        res.counters["syncs_consumed"] += cons
        res.counters["writes_accepted"] += acc
        if (m.count >= 2 and acc) or cons >= 3:
            res.nt(tuple(script))
        if first:
            res.sample({"node": nid, "freq": freq, "cobid": "%x" % cob0, "cycle_us": cyc0, "script_head": script[:12]})
    except S.SimDied as e:
        res.violation("c16/crash/" + e.signature, "executor died: " + e.signature, sim=sim, detail=e.detail[-2000:])
    finally:
        sim.close()


def stored_configuration(res, exe, rng, idx):
    """1005h / 1006h live in a parameter group: what the node does after a power cycle is what the stored (and readable) 1005h / 1006h
    say - producer on or off, its period, the identifier that is recognised as SYNC - exactly as after an NMT reset communication."""
    nid = rng.choice([1, 9])
    freq = 1000
    comp_id = [0x80, 0x40000080, 0x80, 0x40000080][idx % 4]                   # compile-time values (RAM initialisation)
    stor_id = [0x40000080, 0x80, 0x85, 0x40000090][idx % 4]                   # values written and stored before the power cycle
    comp_cyc, stor_cyc = rng.choice([5000, 10000, 20000]), rng.choice([3000, 7000, 12000])
    cfg = Config(nodeid=nid, freq=freq, tmrnum=8)
    gen.add_mandatory(cfg, hb=0, ssdo=1, ssdo_rw=False, with1005=False)
    ram = comp_id.to_bytes(4, "little") + comp_cyc.to_bytes(4, "little")
    cfg.paras.append((0, 0, 8, 2, 1, False, ram, None))                      # one group, reset type communication, enabled
    cfg.add(S.Obj(0x1005, 0, RW, "syncid", "G", 0, 0, 4))
    cfg.add(S.Obj(0x1006, 0, RW, "synccycle", "G", 0, 4, 4))
    cfg.add(var(0x1010, 0, S.D | R, 1, 1, "parastore"))
    cfg.add(S.Obj(0x1010, 1, RW, "parastore", "P", 0))
    cfg.add(var(0x2001, 0, RW | P, 1, 0x42))
    gen.add_tpdo(cfg, 0, 0x40000180, 1, 0, 0, [gen.maplink(0x2001, 0, 8)])
    cfg.nvm = (16, ram + bytes([0xFF]) * 8)                                   # a device whose defaults have been stored once
    cfg.finalize()
    sim = S.Sim(exe, cfg)
    what = "node %d: compile-time 1005h=%x 1006h=%d, stored 1005h=%x 1006h=%d" % (nid, comp_id, comp_cyc, stor_id, stor_cyc)
    try:
        sim.cmd("restart"); sim.cmd("start")
        # reconfigure (producer off first: the identifier cannot change while producing), store, power cycle
        for (i_, v_) in ((0x1005, comp_id & ~0x40000000), (0x1006, stor_cyc), (0x1005, stor_id & ~0x40000000), (0x1005, stor_id)):
            code, _ = S.sdo_write(sim, nid, i_, 0, v_, 4)
            if code is not None:
                res.inconclusive.append("stored-configuration set-up refused: %04x = %x -> %r" % (i_, v_, code)); return
        code, _ = S.sdo_write(sim, nid, 0x1010, 1, 0x65766173, 4)
        if code is not None:
            res.inconclusive.append("stored-configuration: 'save' refused %r" % code); return
        for phase in ("power cycle", "reset communication"):
            if phase == "power cycle":
                sim.cmd("restart"); sim.cmd("start")
            else:
                sim.rx(0, bytes([130, nid]))
            t0 = sim.tick
            v5, _ = S.sdo_read(sim, nid, 0x1005, 0)
            v6, _ = S.sdo_read(sim, nid, 0x1006, 0)
            if v5 != stor_id or v6 != stor_cyc:
                res.violation("c16/stored/values", "%s: after the %s 1005h=%r 1006h=%r" % (what, phase, v5, v6), sim=sim); return
            sim.rx(0, bytes([1, nid]))
            n = 10
            period = stor_cyc // 1000
            evs = sim.cmd("tick %d" % (n * period))
            sid = stor_id & 0x7FF
            got = [t - t0 for (t, cid, dlc, d, f) in S.txs(evs) if cid == sid]
            want = [period * k for k in range(1, n + 1)] if stor_id & 0x40000000 else []
            res.evals += 1
            if got != want:
                res.violation("c16/stored/production", "%s: after the %s SYNC frames at ticks %r, reference %r (1005h reads %x)" % (what, phase, got[:12], want[:12], v5), sim=sim, expected=want, observed=got)
                return
            # consumer side: exactly the stored identifier is a SYNC (type 1 TPDO answers every SYNC)
            for cid in sorted({0x80, 0x85, 0x90, sid}):
                evs = sim.rx(cid, b"")
                tp = [1 for (t, c, dlc, d, f) in S.txs(evs) if c == 0x180 + nid]
                if len(tp) != (1 if cid == sid else 0):
                    res.violation("c16/stored/consumption", "%s: after the %s a frame %xh triggered %d synchronous TPDOs (SYNC identifier stored and readable: %xh)" % (what, phase, cid, len(tp), sid), sim=sim)
                    return
        res.nt("stored", idx, nid, comp_cyc, stor_cyc)
        res.counters["stored_configurations"] += 1
    except S.SimDied as e:
        res.violation("c16/crash/" + e.signature, "executor died: " + e.signature, sim=sim, detail=e.detail[-2000:])
    finally:
        sim.close()


def plan(tier, seed):
    q = tier == "quick"
    return [("hist", i, 40 if q else 400) for i in range(48 if q else 300)] + [("stored", i, 0) for i in range(8 if q else 32)]


def work(item, ctx):
    res = F.Res()
    if item[0] == "stored":
        stored_configuration(res, ctx["exes"]["asan"], random.Random(F.seed_for(ctx["seed"], "C16stored", item[1])), item[1])
        return res
    for h in range(item[2]):
        rng = random.Random(F.seed_for(ctx["seed"], "C16", item[1], h))
        # every fourth item on a build without SDO client and LSS slave (SYNC handling may depend on neither)
        run_history(res, ctx["exes"]["lean" if item[1] % 4 == 3 else "asan"], rng, item[1] == 0 and h == 0)
        if item[1] % 4 == 3:
            res.counters["histories_on_build_without_sdo_client"] += 1
    return res


def selftest(ctx):
    m = SyncModel(1, 1000, 0x80, 10000)
    assert m.write_1005(0x40000080, 5) is None and m.P == 10
    assert m.check_ticks(5, 15, {15: 1}) is None
    assert m.check_ticks(15, 25, {24: 1}) is not None
    assert m.write_1005(0x40000081, 30) == E_RANGE
    assert m.write_1006(50, 30) == E_RANGE and m.cycle == 10000
    m2 = SyncModel(1, 100, 0x80, 0)
    assert m2.period(10000000) == 1000


def finish(total, tier):
    c = total.counters
    p = []
    if c["syncs_produced"] < 1000 or c["syncs_consumed"] < 500:
        p.append("too few SYNCs observed: %r" % dict(c))
    return p


def replay(case, ctx):
    return F.replay_log(case, ctx)
