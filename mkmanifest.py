#!/usr/bin/env python3
"""Regenerates MANIFEST.json from the table below (kept in one place so it stays valid)."""
import json, os
HERE = os.path.dirname(os.path.abspath(__file__))
props = {l["id"]: l for l in (json.loads(x) for x in open(os.path.join(HERE, "properties.jsonl")))}

CHECKS = {
 "C01": ("exploration", "sanitizers (ASan+UBSan with gcc and clang, MemorySanitizer with clang incl. an initialised-memory check of every transmitted frame; valgrind sample) + invariant walkers + CPU watchdog + frame bound over hostile-grammar histories and an enumerated SDO state x command sweep",
         "Held on the histories executed (thousands quick, >10^5 thorough) over generated dictionaries, builds with CO_SSDO_N / CO_CSDO_N in {1,2}, without LSS and SDO client, with CO_RPDO_N/CO_TPDO_N 2/6 and 5/3, all NMT states, driver faults, deferred timer processing; red-zone tools miss intra-object overflows, covered by UBSan bounds and the invariant walkers.",
         "hostile workload + sanitizers + invariant monitors", "3/C01"),
 "C02": ("exploration", "reference SDO client (every conforming choice) against the real server; response-by-response check and whole-dictionary storage comparison after every confirmed download; two interleaved servers, hostile traffic on and switching of the other server",
         "Held on the transfers executed; lost block-final segments are not modelled (client would time out).", "reference-client monitor + storage comparison", "3/C02"),
 "C03": ("exploration", "reference SDO client uploads (normal and block, every block size, any acknowledged prefix, changing block size, repeated reads, objects up to 2*65536+889 bytes, uploads after server-aborted transfers, interleaving with a second server); assembled bytes and announced size compared with the object",
         "Held on the uploads executed (systematic for small objects/block sizes, random otherwise).", "reference-client monitor", "3/C03"),
 "C04": ("exploration", "relational server model: all 2^16 indices swept, access matrix of request kinds x size classes, 18 protocol states (open, completed and server-aborted transfers) x 256 command bytes x 7 payloads with acceptable response counts, refusal-changes-nothing and multiplexer checks, repeated on either server of a two-server build beside an open transfer",
         "Index and state x command sweeps are complete enumerations; payload/content dimensions are sampled. Behaviour CiA 301 leaves open is accepted in every listed alternative.", "relational-model monitor over enumerated requests", "3/C04"),
 "C05": ("exploration", "hostile SDO histories; before each probe the reachable server state is read from the public structure; [client abort | reset communication | nothing after an abort by the server | reset requested inside an object write function] + clean reference transfer must succeed; one or two servers",
         "AG EF idle restated as: recovered from every distinct reachable state observed (count in evidence).", "recovery probes after hostile histories", "3/C05"),
 "C06": ("exploration", "C engine with independent oracles: exhaustive small-scope dictionaries in exact-size arrays (ASan red-zone behind the end marker), random dictionaries, counting type for init-exactly-once, all 8/16-bit values and boundary/random 32-bit values for typed access, every buffer length 0..4000",
         "Small scope (all subsets of 8 keys), 8/16-bit value domains and buffer lengths are complete enumerations; large dictionaries and 32-bit values are sampled.", "enumerated differential test against a linear-scan oracle under ASan", "3/C06"),
 "C07": ("exploration", "real timer code in lockstep with a sequential reference model; breadth-first exploration with snapshot/restore over distinct (model, implementation image) states, random long sequences, conversion sweep",
         "Exhaustive only up to the reported depth / state cap per pool size; delays from a small domain in the exhaustive part.", "lockstep reference-model monitor over enumerated + random operation sequences", "3/C07"),
 "C08": ("exploration", "trap-flag single stepping raises the tick ISR at every instruction of every task-level timer call (deferred to unlock inside critical sections); trace oracles for exactly-once, no-loss, no-run-after-delete, conservation at quiescent points and ISR entries; separated service/process",
         "Interleavings: one or two interrupts per call, at x86-64 instruction granularity of the gcc -O1 build; single core, non-nesting ISR.", "instruction-granular interrupt injection + trace monitors", "3/C08"),
 "C09": ("exploration", "reference NMT FSM + gating table; operation sequences enumerated to a depth bound (quick 3, thorough 4) plus random longer ones, scripted application reactions inside the mode change and reset request callbacks x every operation pair; identifiers beyond 11 bit; the service probes after EVERY operation; frames, callbacks, mode and object effects compared",
         "Complete for the operation alphabet up to the depth bound; delivery of unclaimed frames in STOPPED/INITIALISING is open.", "lockstep reference-FSM monitor with service probes", "3/C09"),
 "C10": ("exploration", "tick-by-tick comparison of heartbeat emissions with the reference schedule over histories mixing every other timer user, NMT changes, resets and 1017h writes (SDO and API, also with the timer pool completely in use)",
         "Histories sampled; phase after boot-up/reset open, after a write exact.", "reference-schedule monitor", "3/C10"),
 "C11": ("exploration", "reference consumer monitor in lockstep: events with ticks, counters, last state, write verdicts and read-back; write-class x entry-state matrix enumerated, saturation history",
         "Histories sampled; node ids 1..127.", "lockstep reference-monitor", "3/C11"),
 "C12": ("exploration", "reference TPDO model in ticks compared with every emitted frame; random histories (1..6 TPDO channels, re-mapping while OPERATIONAL, frames refused by the driver, RPDO switching beside synchronous TPDOs) plus an enumerated sweep of (inhibit, event, trigger offset) incl. coincidences",
         "Histories sampled; one known finding (event-time write during a running inhibit time) is exercised by a witness and excluded from the random workload.", "reference-model monitor over emissions", "3/C12"),
 "C13": ("exploration", "whole object storage compared with the reference RPDO model after every step; all channel-subset x sync-assignment tables enumerated, mappings incl. dummies, partial mappings of objects up to 260 bytes, reconfiguration through SDO between reception and SYNC, identifiers beyond 11 bit; histories random",
         "Table structure enumerated, payloads/histories sampled.", "reference-model monitor over storage", "3/C13"),
 "C14": ("exploration", "CiA 301 precondition model for every write (verdict, code, read-back) plus activation invariant on the live PDO tables and behavioural probes after every activation (incl. frames waiting in synchronous RPDOs across a reconfiguration); builds with unequal channel counts",
         "Write sequences sampled from a covering value domain; open points listed in the evidence assumptions.", "rule-model monitor + invariant at activation", "3/C14"),
 "C15": ("exploration", "reference emergency model compared after every step (frames, count, register, COEmcyGet, history via API and SDO); sequences enumerated to a depth bound on a 4-error table, random tables/histories, wrap-around at every fill level (depths up to 254), application observing the state inside COPdoTransmit",
         "Complete for the alphabet up to depth 4 (quick) / 5 (thorough) on the fixed table; random beyond.", "lockstep reference-model monitor", "3/C15"),
 "C16": ("exploration", "reference model of SYNC consumption/production: produced frames tick by tick, write verdicts and read-back, synchronous TPDO/RPDO reactions to every received SYNC; also on a build without SDO client / LSS",
         "Histories sampled over six timer frequencies (100 Hz .. 1 MHz) and periods up to 2^32-1 us; stored configuration compared after power cycle and reset.", "reference-model monitor", "3/C16"),
 "C17": ("fault_enumeration", "for every generated request sequence: fault-free run, a power cycle after every request prefix, and every NVM driver call (reads and writes) made short by 1 byte and by the whole block; RAM, NVM, verdicts, node error and default callbacks compared with the model after every step; also on a build without LSS / SDO client",
         "Exhaustive over restart points and fault positions per generated (layout, sequence); torn writes inside one request are outside the property.", "fault enumeration with lockstep reference model", "3/C17"),
 "C18": ("exploration", "reference CiA 305 FSM; breadth-first over distinct reference states to a depth bound (every abstract request in every distinct state, replayed on the real node) plus random sequences; responses, store arguments, foreign reactions, boot-up id after reset compared; identity entries re-written by the application",
         "Complete over the abstract request set per distinct reference state up to the depth bound; near-miss selective/identify sequences (single and double mutations) enumerated.", "lockstep reference-FSM monitor", "3/C18"),
 "C19": ("exploration", "scripted reference SDO server (conforming and deviating at every step k); per transfer: exactly one callback with code and tick, request frames equal the reference client's, buffer content under ASan, busy refusal, no timer/state left behind, next transfer unaffected; one or two clients, timeouts 0 .. 2^32 ms, reset inside the completion callback",
         "Every size 1..600 per direction (thorough) and every deviation step for short transfers; larger sizes sampled.", "reference-server monitor + timer-occupancy invariant", "3/C19"),
 "C20": ("exploration", "differential execution: node after history + reset versus a fresh executor initialised with the same dictionary values, identical probe sequence, trace equality and timer-occupancy equality; resets from the bus or requested inside callbacks, stored LSS node id, self-starting application, two-server and no-LSS/no-client builds",
         "Equivalence established for the probe sequence only.", "differential trace monitor", "3/C20"),
}
NA = {}

man = {"version": 1,
       "setup_cmd": "./check --setup",
       "hooks": {"guard": "CANOPEN_STACK_VERIF",
                 "enable": "-DCANOPEN_STACK_VERIF is passed by monitors/build.py to every build of /repo/src (no source hook exists so far; all observation happens at the driver/callback boundary)",
                 "baseline_off_cmd": "./check --baseline-off",
                 "source_commits": [], "add_only": True},
       "engines": [{"name": "dictcheck", "path": "harness/dictcheck.c", "serves_properties": ["C06"], "kind_free_text": "C engine, ASan, linear-scan oracle"}, {"name": "tmrcheck", "path": "harness/tmrcheck.c", "serves_properties": ["C07", "C08"], "kind_free_text": "C engine: lockstep timer model, BFS with snapshots, trap-flag ISR injection"}, {"name": "cosim", "path": "harness/cosim.c", "serves_properties": sorted(p for p in CHECKS if p not in ("C06", "C07", "C08")), "kind_free_text": "line-protocol executor running the real stack with harness drivers, callbacks, red-zoned memory and invariant walkers"}],
       "checks": [], "not_applicable": [],
       "notes": "All checks rebuild the stack from /repo's working tree (VERIF_REPO overrides for scratch copies). Exit 0 held / 1 violation / 2 inconclusive."}
for pid in sorted(props):
    if pid in CHECKS:
        level, text, note, tech, ref = CHECKS[pid]
        man["checks"].append({"property_id": pid, "quick_cmd": "./check %s --tier quick" % pid, "thorough_cmd": "./check %s --tier thorough" % pid,
                              "evidence_file": "evidence/%s.json" % pid, "replay_cmd_template": "./check %s --replay {path}" % pid,
                              "engine": {"C06": "dictcheck", "C07": "tmrcheck", "C08": "tmrcheck"}.get(pid, "cosim"), "level_claimed": {"category": level, "text": text, "design_ref": "DESIGN.md section " + ref},
                              "level_note": note, "technique": tech})
    else:
        man["not_applicable"].append({"property_id": pid, "reason": NA.get(pid, "check not built yet in this session (runtime monitoring applies; see DESIGN.md section 3)")})
json.dump(man, open(os.path.join(HERE, "MANIFEST.json"), "w"), indent=1)
print("checks:", len(man["checks"]), "not claimed:", len(man["not_applicable"]))
