#!/usr/bin/env python3
"""Regenerates MANIFEST.json from the table below (kept in one place so it stays valid)."""
import json, os
HERE = os.path.dirname(os.path.abspath(__file__))
props = {l["id"]: l for l in (json.loads(x) for x in open(os.path.join(HERE, "properties.jsonl")))}

CHECKS = {
 "C01": ("exploration", "sanitizers (ASan+UBSan, gcc and clang; valgrind sample) + invariant walkers + CPU watchdog + frame bound over hostile-grammar histories and an enumerated SDO state x command sweep",
         "Held on the histories executed (thousands quick, >10^5 thorough) over generated dictionaries, CO_SSDO_N in {1,2}, all NMT states, driver faults; red-zone tools miss intra-object overflows, covered by UBSan bounds and the invariant walkers.",
         "hostile workload + sanitizers + invariant monitors", "3/C01"),
 "C02": ("exploration", "reference SDO client (every conforming choice) against the real server; response-by-response check and whole-dictionary storage comparison after every confirmed download; two interleaved servers",
         "Held on the transfers executed; lost block-final segments are not modelled (client would time out).", "reference-client monitor + storage comparison", "3/C02"),
 "C03": ("exploration", "reference SDO client uploads (normal and block, every block size, any acknowledged prefix, changing block size, repeated reads); assembled bytes and announced size compared with the object",
         "Held on the uploads executed (systematic for small objects/block sizes, random otherwise).", "reference-client monitor", "3/C03"),
 "C04": ("exploration", "relational server model: all 2^16 indices swept, access matrix of request kinds x size classes, 7 protocol states x 256 command bytes x 6 payloads with acceptable response counts, refusal-changes-nothing and multiplexer checks",
         "Index and state x command sweeps are complete enumerations; payload/content dimensions are sampled. Behaviour CiA 301 leaves open is accepted in every listed alternative.", "relational-model monitor over enumerated requests", "3/C04"),
 "C05": ("exploration", "hostile SDO histories; before each probe the reachable server state is read from the public structure; [abort | reset communication] + clean reference transfer must succeed",
         "AG EF idle restated as: recovered from every distinct reachable state observed (count in evidence).", "recovery probes after hostile histories", "3/C05"),
 "C06": ("exploration", "C engine with independent oracles: exhaustive small-scope dictionaries in exact-size arrays (ASan red-zone behind the end marker), random dictionaries, counting type for init-exactly-once, all 8/16-bit values and boundary/random 32-bit values for typed access, every buffer length 0..4000",
         "Small scope (all subsets of 8 keys), 8/16-bit value domains and buffer lengths are complete enumerations; large dictionaries and 32-bit values are sampled.", "enumerated differential test against a linear-scan oracle under ASan", "3/C06"),
 "C07": ("exploration", "real timer code in lockstep with a sequential reference model; breadth-first exploration with snapshot/restore over distinct (model, implementation image) states, random long sequences, conversion sweep",
         "Exhaustive only up to the reported depth / state cap per pool size; delays from a small domain in the exhaustive part.", "lockstep reference-model monitor over enumerated + random operation sequences", "3/C07"),
 "C08": ("exploration", "trap-flag single stepping raises the tick ISR at every instruction of every task-level timer call (deferred to unlock inside critical sections); trace oracles for exactly-once, no-loss, no-run-after-delete, conservation at quiescent points and ISR entries; separated service/process",
         "Interleavings: one or two interrupts per call, at x86-64 instruction granularity of the gcc -O1 build; single core, non-nesting ISR.", "instruction-granular interrupt injection + trace monitors", "3/C08"),
}
NA = {}

man = {"version": 1,
       "setup_cmd": "./check --setup",
       "hooks": {"guard": "CANOPEN_STACK_VERIF",
                 "enable": "-DCANOPEN_STACK_VERIF is passed by monitors/build.py to every build of /repo/src (no source hook exists so far; all observation happens at the driver/callback boundary)",
                 "baseline_off_cmd": "./check --baseline-off",
                 "source_commits": [], "add_only": True},
       "engines": [{"name": "dictcheck", "path": "harness/dictcheck.c", "serves_properties": ["C06"], "kind_free_text": "C engine, ASan, linear-scan oracle"}, {"name": "tmrcheck", "path": "harness/tmrcheck.c", "serves_properties": ["C07", "C08"], "kind_free_text": "C engine: lockstep timer model, BFS with snapshots, trap-flag ISR injection"}, {"name": "cosim", "path": "harness/cosim.c", "serves_properties": sorted(p for p in CHECKS if p not in ("C06", "C07", "C08")), "kind_free_text": "line-protocol executor running the real stack with harness drivers, callbacks, red-zoned memory and invariant walkers"}],
       "checks": [], "not_applicable": [],
       "notes": "All checks rebuild the stack from /repo's working tree (VERIF_REPO overrides for scratch copies). Exit 0 held / 1 violation / 2 inconclusive."}
for pid in sorted(props):
    if pid in CHECKS:
        level, text, note, tech, ref = CHECKS[pid]
        man["checks"].append({"property_id": pid, "quick_cmd": "./check %s --tier quick" % pid, "thorough_cmd": "./check %s --tier thorough" % pid,
                              "evidence_file": "evidence/%s.json" % pid, "replay_cmd_template": "./check %s --replay {path}" % pid,
                              "engine": {"C06": "dictcheck", "C07": "tmrcheck", "C08": "tmrcheck"}.get(pid, "cosim"), "level_claimed": {"category": level, "text": text, "design_ref": "DESIGN.md section " + ref},
                              "level_note": note, "technique": tech})
    else:
        man["not_applicable"].append({"property_id": pid, "reason": NA.get(pid, "check not built yet in this session (runtime monitoring applies; see DESIGN.md section 3)")})
json.dump(man, open(os.path.join(HERE, "MANIFEST.json"), "w"), indent=1)
print("checks:", len(man["checks"]), "not claimed:", len(man["not_applicable"]))
