/* cosim - line-protocol executor driving the real canopen-stack.
 *
 * Everything the stack can touch is allocated here in blocks of exactly the
 * declared size (ASan red-zones on both sides; canaries in non-ASan builds),
 * every driver function and every application callback is ours, so the whole
 * boundary of the stack is observable.  See DESIGN.md section 1.
 *
 * stdin : one command per line          stdout: event lines, then ". <tick>"
 */
#define _GNU_SOURCE
#include <stdio.h>
#include <stdlib.h>
#include <string.h>
#include <stdint.h>
#include <signal.h>
#include <unistd.h>
#include <execinfo.h>
#include <sys/time.h>
#include "co_core.h"

/* ------------------------------------------------------------------ arena */
#if defined(__has_feature)
#if __has_feature(memory_sanitizer)
#include <sanitizer/msan_interface.h>
#define HAVE_MSAN 1
#endif
#endif
#ifndef HAVE_MSAN
#define HAVE_MSAN 0
#endif
#if defined(__SANITIZE_ADDRESS__) || HAVE_MSAN          /* a sanitizer watches the heap: plain blocks, no canaries of our own */
#define HAVE_ASAN 1
#else
#define HAVE_ASAN 0
#endif
#define CANARY 64
#define MAXBLK 4096
static struct { uint8_t *base; size_t size; } Blk[MAXBLK];
static int NBlk;

static void die(const char *m) { printf("harness-error %s\n", m); fflush(stdout); exit(3); }

static void *xalloc(size_t size)
{
    if (size == 0) size = 1;
#if HAVE_ASAN
    void *p = malloc(size);
    if (!p) die("oom");
    memset(p, 0, size);
    return p;
#else
    uint8_t *p = malloc(size + 2 * CANARY);
    if (!p) die("oom");
    memset(p, 0xC5, size + 2 * CANARY);
    memset(p + CANARY, 0, size);
    if (NBlk >= MAXBLK) die("too many blocks");
    Blk[NBlk].base = p; Blk[NBlk].size = size; NBlk++;
    return p + CANARY;
#endif
}
static int canary_check(void)
{
    int bad = 0;
#if !HAVE_ASAN
    for (int i = 0; i < NBlk; i++) {
        uint8_t *p = Blk[i].base;
        for (int k = 0; k < CANARY; k++) {
            if (p[k] != 0xC5 || p[CANARY + Blk[i].size + k] != 0xC5) { bad++; break; }
        }
    }
#endif
    return bad;
}

/* ------------------------------------------------------------- global sim */
static CO_NODE      *Node;
static CO_NODE_SPEC  Spec;
static CO_IF_DRV     Drv;
static uint32_t      Tick;                 /* virtual time = COTmrService calls */
static uint8_t       NodeFill;

/* dictionary description */
enum { K_DIRECT, K_VAR, K_STR, K_DOM, K_HBC, K_PARA, K_NULL, K_USR, K_GRP };
typedef struct {
    uint32_t key; const CO_OBJ_TYPE *type; int kind; int width;
    uint32_t init; void *store; size_t storelen; uint8_t *initbytes;
    int gid; CO_OBJ_DOM *dom; CO_OBJ_STR *str; CO_HBCONS *hbc;
    uint8_t hb_node; uint16_t hb_time;
} ODESC;
#define MAXOBJ 4096
static ODESC   Od[MAXOBJ];
static int     NOd;
static CO_OBJ *Dict;       /* exactly NOd+1 entries (or dictmax if smaller)  */
static int     DictMax = -1;

typedef struct { CO_PARA pg; uint8_t *ram; uint8_t *def; uint8_t *raminit; int used; } PGRP;
#define MAXPG 8
static PGRP Pg[MAXPG];

static CO_EMCY_TBL *EmcyTbl; static int NEmcy;
static int EmcyNull;

static uint8_t *Nvm; static uint32_t NvmSize;
static uint8_t *SdoBuf; static CO_TMR_MEM *TmrMem;

/* user type objects */
typedef struct { uint32_t size; uint32_t rderr; uint32_t wrerr; uint32_t abortc; uint8_t val[8]; uint32_t initcnt; } USRO;

/* persistent LSS store */
static int      LssHave; static uint32_t LssBaud; static uint8_t LssNode;

/* fault plan: countdown; 0 = off, 1 = next call fails */
static int F_cansend, F_canread, F_nvmread, F_nvmwrite, F_lssload, F_lssstore, F_paradef;
static int F_nvmshort = 1;
static int PdoVeto;

/* rx queue (one frame) */
static CO_IF_FRM RxFrm; static int RxHave;

/* lock tracking */
static int LockDepth, LockBad;

/* app timers */
static int AppTag[256];

/* csdo user buffers */
#if USE_CSDO
static uint8_t *CsBuf[CO_CSDO_N]; static uint32_t CsLen[CO_CSDO_N];
#endif

static void hex(const uint8_t *p, size_t n) { for (size_t i = 0; i < n; i++) printf("%02x", p[i]); if (!n) printf("-"); }
static size_t unhex(const char *s, uint8_t *out, size_t max)
{
    size_t n = 0;
    if (!s || s[0] == '-') return 0;
    while (s[0] && s[1] && n < max) {
        unsigned v; if (sscanf(s, "%2x", &v) != 1) break;
        out[n++] = (uint8_t)v; s += 2;
    }
    return n;
}

/* ---------------------------------------------------------------- drivers */
static void     d_can_init(void)          { printf("drv can_init\n"); }
static void     d_can_enable(uint32_t b)  { printf("drv can_enable %u\n", b); }
static void     d_can_reset(void)         { printf("drv can_reset\n"); }
static void     d_can_close(void)         { printf("drv can_close\n"); }
static int16_t  d_can_read(CO_IF_FRM *f)
{
    /* a failing read: the mailbox content may already be in the caller's buffer when the error is reported */
    if (F_canread > 0 && --F_canread == 0) { if (RxHave) *f = RxFrm; RxHave = 0; printf("drv can_read_fail\n"); return -1; }
    if (!RxHave) return 0;
    *f = RxFrm; RxHave = 0;
    return (int16_t)sizeof(CO_IF_FRM);
}
/* MemorySanitizer build: everything the node puts on the bus (identifier, DLC, the DLC data bytes) and hands to the application
 * has to be initialised memory - a frame assembled in a local variable of the stack must not carry stack garbage */
static void frame_initialised(const char *what, CO_IF_FRM *f)
{
#if HAVE_MSAN
    intptr_t a = __msan_test_shadow(&f->Identifier, sizeof f->Identifier), b = __msan_test_shadow(&f->DLC, sizeof f->DLC);
    if (a >= 0 || b >= 0) { printf("inv %s-uninitialised-header\n", what); __msan_unpoison(f, sizeof *f); return; }
    intptr_t c = __msan_test_shadow(f->Data, f->DLC > 8 ? 8 : f->DLC);
    if (c >= 0) { printf("inv %s-uninitialised-data-byte id=%x dlc=%u byte=%d\n", what, f->Identifier, f->DLC, (int)c); __msan_unpoison(f, sizeof *f); }
#else
    (void)what; (void)f;
#endif
}
static int16_t  d_can_send(CO_IF_FRM *f)
{
    int fail = 0;
    frame_initialised("tx", f);
    if (F_cansend > 0 && --F_cansend == 0) fail = 1;
    printf("tx %u %x %u ", Tick, f->Identifier, f->DLC);
    hex(f->Data, f->DLC > 8 ? 8 : f->DLC);
    printf(fail ? " FAIL\n" : "\n");
    return fail ? -1 : (int16_t)sizeof(CO_IF_FRM);
}
static uint32_t HwCnt;
static void     d_tmr_init(uint32_t f)    { (void)f; HwCnt = 0; }
static void     d_tmr_reload(uint32_t r)  { HwCnt = r; }
static uint32_t d_tmr_delay(void)         { return HwCnt; }
static void     d_tmr_stop(void)          { HwCnt = 0; }
static void     d_tmr_start(void)         { }
static uint8_t  d_tmr_update(void)
{
    if (HwCnt > 0) { HwCnt--; if (HwCnt == 0) return 1; }
    return 0;
}
static void     d_nvm_init(void)          { }
static uint32_t d_nvm_read(uint32_t start, uint8_t *buf, uint32_t size)
{
    uint32_t n = size;
    if (start >= NvmSize) n = 0; else if (start + n > NvmSize) n = NvmSize - start;
    if (F_nvmread > 0 && --F_nvmread == 0) { n = (n > (uint32_t)F_nvmshort) ? n - F_nvmshort : 0; }
    if (n) memcpy(buf, Nvm + start, n);
    printf("nvm r %u %u %u\n", start, size, n);
    return n;
}
static uint32_t d_nvm_write(uint32_t start, uint8_t *buf, uint32_t size)
{
    uint32_t n = size;
    if (start >= NvmSize) n = 0; else if (start + n > NvmSize) n = NvmSize - start;
    if (F_nvmwrite > 0 && --F_nvmwrite == 0) { n = (n > (uint32_t)F_nvmshort) ? n - F_nvmshort : 0; }
    if (n) memcpy(Nvm + start, buf, n);
    printf("nvm w %u %u %u\n", start, size, n);
    return n;
}
static const CO_IF_CAN_DRV   CanDrv = { d_can_init, d_can_enable, d_can_read, d_can_send, d_can_reset, d_can_close };
static const CO_IF_TIMER_DRV TmrDrv = { d_tmr_init, d_tmr_reload, d_tmr_delay, d_tmr_stop, d_tmr_start, d_tmr_update };
static const CO_IF_NVM_DRV   NvmDrv = { d_nvm_init, d_nvm_read, d_nvm_write };

/* -------------------------------------------------------------- callbacks */
void CONodeFatalError(void)                         { printf("cb fatal\n"); }
void COTmrLock(void)                                { LockDepth++; if (LockDepth != 1) LockBad++; }
void COTmrUnlock(void)                              { LockDepth--; if (LockDepth != 0) LockBad++; }
/* scripted reaction of the application inside the mode change callback ("modecb <mode> setmode <m>" / "modecb <mode> trigpdo <n>" /
 * "modecb 0 off"): a self-starting device, a device that refuses OPERATIONAL, a status PDO sent on every mode change */
static int McbMode, McbAct, McbArg, McbDepth;
static uint32_t IcbIdx, IcbSub, IcbVal;
static int McbRamFill = -1;    /* "ramfillcb <byte>": on the notification of INITIALISING the application sets its factory defaults (all parameter RAM) */
void CONmtModeChange(CO_NMT *nmt, CO_MODE mode)
{
    printf("cb mode %d\n", (int)mode);
    if (IcbIdx != 0 && mode == CO_INIT) {
        /* "initcb <idx> <sub> <val>": when it is told that the node initialises the application sets one of its parameters (16 bit) */
        CO_ERR e = CODictWrWord(&nmt->Node->Dict, CO_DEV(IcbIdx, IcbSub), (uint16_t)IcbVal);
        printf("cb initwr %x %d\n", IcbIdx, (int)e);
    }
    if (McbRamFill >= 0 && mode == CO_INIT) {
        for (int g = 0; g < MAXPG; g++) if (Pg[g].used) memset(Pg[g].ram, McbRamFill, Pg[g].pg.Size);
        printf("cb ramfill %d\n", McbRamFill);
    }
    if (McbAct != 0 && (int)mode == McbMode && McbDepth < 3) {
        McbDepth++;
        if (McbAct == 1) CONmtSetMode(nmt, (CO_MODE)McbArg);
        else             COTPdoTrigPdo(nmt->Node->TPdo, (uint16_t)McbArg);
        McbDepth--;
    }
}
static int RcbAct, RcbArg;     /* "resetcb setmode <m>": the application requests a mode inside CONmtResetRequest (e.g. a self-starting device) */
void CONmtResetRequest(CO_NMT *nmt, CO_NMT_RESET r)
{
    printf("cb resetreq %d %d\n", (int)r, (int)CONmtGetMode(nmt));
    if (RcbAct == 1) CONmtSetMode(nmt, (CO_MODE)RcbArg);
}
/* "hbeventcb <sub> <v1> <v2>": the next heartbeat event makes the application re-configure entry 1016h:<sub> from inside the callback
 * (sub > 0), or reset the communication from there (sub = -1: "monitored node lost, so reset communication") */
static int HecSub; static uint32_t HecV1, HecV2;
/* "resetin <hbevent|hbchange|apptmr|csdo> <type>": the application resets the node (CONmtReset) from inside the next callback of that kind */
static int RinCb, RinType;
static void reset_inside(int which)
{
    if (RinCb == which) { RinCb = 0; printf("cb resetin %d %u\n", which, Tick); CONmtReset(&Node->Nmt, (CO_NMT_RESET)RinType); }
}
void CONmtHbConsEvent(CO_NMT *nmt, uint8_t id)
{
    printf("cb hbevent %u %u\n", id, Tick);
    reset_inside(1);
    if (HecSub != 0) {
        int sub = HecSub; HecSub = 0;
        if (sub > 0) {
            CO_ERR e1 = CODictWrLong(&nmt->Node->Dict, CO_DEV(0x1016, sub), HecV1);
            CO_ERR e2 = (HecV2 != HecV1) ? CODictWrLong(&nmt->Node->Dict, CO_DEV(0x1016, sub), HecV2) : CO_ERR_NONE;
            printf("cb hbrewrite %d %d %d\n", sub, (int)e1, (int)e2);
        } else {
            printf("cb hbreset\n");
            CONmtReset(nmt, CO_RESET_COM);
        }
    }
}
/* "hbchangecb <sub> <v1> <v2>": the next state change notification makes the application re-configure entry 1016h:<sub> from inside
 * the callback (v1, then v2 - a new time for a monitored node needs the deactivation first) */
static int HccSub; static uint32_t HccV1, HccV2;
void CONmtHbConsChange(CO_NMT *nmt, uint8_t id, CO_MODE m)
{
    printf("cb hbchange %u %d\n", id, (int)m);
    reset_inside(2);
    if (HccSub > 0) {
        int sub = HccSub; HccSub = 0;
        CO_ERR e1 = CODictWrLong(&nmt->Node->Dict, CO_DEV(0x1016, sub), HccV1);
        CO_ERR e2 = CODictWrLong(&nmt->Node->Dict, CO_DEV(0x1016, sub), HccV2);
        printf("cb hbrewrite %d %d %d\n", sub, (int)e1, (int)e2);
    }
}
CO_ERR COLssLoad(uint32_t *baud, uint8_t *id)
{
    if (F_lssload > 0 && --F_lssload == 0) { printf("cb lssload FAIL\n"); return CO_ERR_LSS_LOAD; }
    if (LssHave) {
        if (LssBaud != 0) *baud = LssBaud;
        if (LssNode != 0) *id = LssNode;
    }
    printf("cb lssload %u %u\n", *baud, *id);
    return CO_ERR_NONE;
}
CO_ERR COLssStore(uint32_t baud, uint8_t id)
{
    if (F_lssstore > 0 && --F_lssstore == 0) { printf("cb lssstore %u %u FAIL\n", baud, id); return CO_ERR_LSS_STORE; }
    LssHave = 1; LssBaud = baud; LssNode = id;
    printf("cb lssstore %u %u\n", baud, id);
    return CO_ERR_NONE;
}
void COIfCanReceive(CO_IF_FRM *f) { printf("cb canrx %x %u ", f->Identifier, f->DLC); hex(f->Data, f->DLC > 8 ? 8 : f->DLC); printf("\n"); }
/* "pdotxcb <num>": inside the next COPdoTransmit callback the application triggers TPDO <num> (e.g. the one being sent: "send once more") */
static int PtxNum = -1;
static int PtxEmcy;      /* "pdotxprobe 1": the application looks at the emergency state from inside COPdoTransmit (a status TPDO maps 1001h) */
void COPdoTransmit(CO_IF_FRM *f)
{
    printf("cb pdotx %x %u ", f->Identifier, f->DLC); hex(f->Data, f->DLC > 8 ? 8 : f->DLC); printf("\n");
    if (PtxEmcy) {
        uint8_t h0 = 0xEE, reg = 0xEE;
        (void)CODictRdByte(&Node->Dict, CO_DEV(0x1003, 0), &h0);
        (void)CODictRdByte(&Node->Dict, CO_DEV(0x1001, 0), &reg);
        printf("cb pdotxemcy %d %u %u\n", (int)COEmcyCnt(&Node->Emcy), h0, reg);
    }
    if (PtxNum >= 0) { int n = PtxNum; PtxNum = -1; printf("cb pdotxtrig %d\n", n); COTPdoTrigPdo(Node->TPdo, (uint16_t)n); }
}
int16_t COPdoReceive(CO_IF_FRM *f){ printf("cb pdorx %x %u ", f->Identifier, f->DLC); hex(f->Data, f->DLC > 8 ? 8 : f->DLC); printf("\n"); return (int16_t)PdoVeto; }
void COPdoSyncUpdate(CO_RPDO *p)  { printf("cb pdosync %d\n", (int)(p - Node->RPdo)); }
int16_t COParaDefault(CO_PARA *pg)
{
    int gid = -1;
    for (int i = 0; i < MAXPG; i++) if (Pg[i].used && &Pg[i].pg == pg) gid = i;
    if (F_paradef > 0 && --F_paradef == 0) { printf("cb paradef %d FAIL\n", gid); return 1; }
    if (pg->Default != NULL) memcpy(pg->Start, pg->Default, pg->Size);
    printf("cb paradef %d\n", gid);
    return 0;
}
/* mapped objects larger than 4 bytes (and of sizes no basic type has, e.g. 3) are the application's business: this application
 * copies domains and its own user-type objects to / from the frame */
static int is_usr(CO_OBJ *obj); static uint8_t *usr_val(CO_OBJ *obj);
void CORpdoWriteData(CO_IF_FRM *f, uint8_t pos, uint8_t size, CO_OBJ *obj)
{
    printf("cb rpdowr %u %u %x\n", pos, size, obj->Key);
    if (is_usr(obj)) { uint8_t *v = usr_val(obj); for (uint8_t i = 0; i < size && i < 8 && pos + i < 8; i++) v[i] = f->Data[pos + i]; }
    if (obj->Type == CO_TDOMAIN) { CO_OBJ_DOM *d = (CO_OBJ_DOM *)obj->Data; for (uint8_t i = 0; i < size && i < d->Size && pos + i < 8; i++) d->Start[i] = f->Data[pos + i]; }
}
void COTpdoReadData(CO_IF_FRM *f, uint8_t pos, uint8_t size, CO_OBJ *obj)
{
    printf("cb tpdord %u %u %x\n", pos, size, obj->Key);
    if (is_usr(obj)) { uint8_t *v = usr_val(obj); for (uint8_t i = 0; i < size && i < 8 && pos + i < 8; i++) f->Data[pos + i] = v[i]; }
    if (obj->Type == CO_TDOMAIN) { CO_OBJ_DOM *d = (CO_OBJ_DOM *)obj->Data; for (uint8_t i = 0; i < size && i < d->Size && pos + i < 8; i++) f->Data[pos + i] = d->Start[i]; }
}

static void app_tmr(void *arg)  { printf("cb apptmr %d %u\n", (int)((int *)arg - AppTag), Tick); reset_inside(3); }
static uint32_t CbTmrStart; static int CbTmrTag = -1;     /* csdocbtimer: the completion callback starts an application timer */
/* csdocbreq <timeout>: the completion callback requests the next transfer on the same client (chained requests); csdocbemcy: it
 * registers an emergency ("SDO transfer failed") */
static uint32_t CbReqTmo; static int CbReqRes = -1; static int CbEmcy; static uint8_t CbReqBuf[4];
#if USE_CSDO
static void csdo_cb(CO_CSDO *c, uint16_t idx, uint8_t sub, uint32_t code)
{
    printf("cb csdo %d %x %u %x %u\n", (int)(c - Node->CSdo), idx, sub, code, Tick);
    if (CbReqTmo > 0) {
        uint32_t tmo = CbReqTmo; CbReqTmo = 0;
        CbReqRes = (int)COCSdoRequestUpload(c, CO_DEV(0x2000, 1), CbReqBuf, 4, csdo_cb, tmo);
        printf("cb csdoreq %d\n", CbReqRes);
    }
    if (CbEmcy) { CbEmcy = 0; printf("cb csdoemcy\n"); COEmcySet(&Node->Emcy, 0, NULL); }
    reset_inside(4);
    if (CbTmrTag >= 0) {
        AppTag[CbTmrTag] = CbTmrTag;
        printf("cb csdotimer %d\n", COTmrCreate(&Node->Tmr, CbTmrStart, 0, app_tmr, &AppTag[CbTmrTag]));
        CbTmrTag = -1;
    }
}
#endif

/* ------------------------------------------------------------- user type */
static uint32_t usr_size(CO_OBJ *o, CO_NODE *n, uint32_t w) { (void)n; (void)w; return ((USRO *)o->Data)->size; }
static CO_ERR usr_init(CO_OBJ *o, CO_NODE *n) { (void)n; ((USRO *)o->Data)->initcnt++; return CO_ERR_NONE; }
static CO_ERR usr_read(CO_OBJ *o, CO_NODE *n, void *b, uint32_t s)
{
    USRO *u = (USRO *)o->Data;
    if (u->rderr) { if (u->abortc) COObjTypeUserSDOAbort(o, n, u->abortc); return (CO_ERR)u->rderr; }
    memcpy(b, u->val, s > 8 ? 8 : s);
    return CO_ERR_NONE;
}
static CO_ERR usr_write(CO_OBJ *o, CO_NODE *n, void *b, uint32_t s)
{
    USRO *u = (USRO *)o->Data;
    if (u->wrerr) { if (u->abortc) COObjTypeUserSDOAbort(o, n, u->abortc); return (CO_ERR)u->wrerr; }
    memcpy(u->val, b, s > 8 ? 8 : s);
    /* a "reset device" object: writing it makes the application reset the communication (abort code field C0DE0082h) or the node (..81h) */
    /* ... abort code field C0DE0092h: only when a complete block (>= 512 bytes) arrives - the application has seen the header of a download */
    if (u->abortc == 0xC0DE0092u && s >= 512u) { printf("cb usrreset 146\n"); CONmtReset(&n->Nmt, CO_RESET_COM); }
    if (u->abortc == 0xC0DE0082u || u->abortc == 0xC0DE0081u) { printf("cb usrreset %u\n", u->abortc & 0xFF); CONmtReset(&n->Nmt, (u->abortc & 1) ? CO_RESET_NODE : CO_RESET_COM); }
    return CO_ERR_NONE;
}
static const CO_OBJ_TYPE UsrType = { usr_size, usr_init, usr_read, usr_write, 0 };
static int is_usr(CO_OBJ *obj) { return obj->Type == &UsrType; }
static uint8_t *usr_val(CO_OBJ *obj) { return ((USRO *)obj->Data)->val; }

/* --------------------------------------------------------- type name table */
static const CO_OBJ_TYPE *type_by_name(const char *s)
{
    if (!strcmp(s, "u8"))  return CO_TUNSIGNED8;
    if (!strcmp(s, "u16")) return CO_TUNSIGNED16;
    if (!strcmp(s, "u32")) return CO_TUNSIGNED32;
    if (!strcmp(s, "str")) return CO_TSTRING;
    if (!strcmp(s, "dom")) return CO_TDOMAIN;
    if (!strcmp(s, "hbprod")) return CO_THB_PROD;
    if (!strcmp(s, "hbcons")) return CO_THB_CONS;
    if (!strcmp(s, "emcyhist")) return CO_TEMCY_HIST;
    if (!strcmp(s, "emcyid")) return CO_TEMCY_ID;
    if (!strcmp(s, "syncid")) return CO_TSYNC_ID;
    if (!strcmp(s, "synccycle")) return CO_TSYNC_CYCLE;
    if (!strcmp(s, "sdoid")) return CO_TSDO_ID;
    if (!strcmp(s, "pdoid")) return CO_TPDO_ID;
    if (!strcmp(s, "pdotype")) return CO_TPDO_TYPE;
    if (!strcmp(s, "pdonum")) return CO_TPDO_NUM;
    if (!strcmp(s, "pdomap")) return CO_TPDO_MAP;
    if (!strcmp(s, "pdoevent")) return CO_TPDO_EVENT;
    if (!strcmp(s, "parastore")) return CO_TPARA_STORE;
    if (!strcmp(s, "pararestore")) return CO_TPARA_RESTORE;
    if (!strcmp(s, "usr")) return &UsrType;
    die("unknown type");
    return 0;
}

/* -------------------------------------------------------------- building */
static void store_reset(ODESC *d)
{
    switch (d->kind) {
    case K_VAR:
        if (d->width == 1) *(uint8_t *)d->store = (uint8_t)d->init;
        else if (d->width == 2) *(uint16_t *)d->store = (uint16_t)d->init;
        else *(uint32_t *)d->store = d->init;
        break;
    case K_STR: memcpy(d->str->Start, d->initbytes, d->storelen); d->str->Offset = 0; break;
    case K_DOM: memcpy(d->dom->Start, d->initbytes, d->storelen); d->dom->Offset = 0; d->dom->Size = (uint32_t)d->storelen; break;
    case K_HBC: memset(d->hbc, 0, sizeof(*d->hbc)); d->hbc->NodeId = d->hb_node; d->hbc->Time = d->hb_time; d->hbc->Tmr = -1; break;
    case K_USR: { USRO *u = (USRO *)d->store; memset(u->val, 0, 8); memcpy(u->val, &d->init, 4); u->initcnt = 0; } break;
    default: break;
    }
}
static void build_dict(void)
{
    int n = NOd + 1;
    if (DictMax >= 0 && DictMax < n) n = DictMax;     /* dictmax smaller: no end mark inside */
    if (Dict == NULL) Dict = xalloc(sizeof(CO_OBJ) * (size_t)(n > 0 ? n : 1));
    memset(Dict, 0, sizeof(CO_OBJ) * (size_t)(n > 0 ? n : 1));
    for (int i = 0; i < NOd && i < n; i++) {
        ODESC *d = &Od[i];
        Dict[i].Key = d->key; Dict[i].Type = d->type;
        switch (d->kind) {
        case K_DIRECT: Dict[i].Data = (CO_DATA)d->init; break;
        case K_VAR:    Dict[i].Data = (CO_DATA)d->store; break;
        case K_STR:    Dict[i].Data = (CO_DATA)d->str; break;
        case K_DOM:    Dict[i].Data = (CO_DATA)d->dom; break;
        case K_HBC:    Dict[i].Data = (CO_DATA)d->hbc; break;
        case K_PARA:   Dict[i].Data = (CO_DATA)&Pg[d->gid].pg; break;
        case K_GRP:    Dict[i].Data = (CO_DATA)(Pg[d->gid].ram + d->init); break;     /* a parameter that lives in the RAM block of a parameter group */
        case K_USR:    Dict[i].Data = (CO_DATA)d->store; break;
        default:       Dict[i].Data = 0; break;
        }
        store_reset(d);
    }
    for (int g = 0; g < MAXPG; g++) if (Pg[g].used) memcpy(Pg[g].ram, Pg[g].raminit, Pg[g].pg.Size);
}

static void do_init(void)
{
    if (Node == NULL) Node = xalloc(sizeof(CO_NODE));
    memset(Node, NodeFill, sizeof(CO_NODE));
    build_dict();
    Drv.Can = &CanDrv; Drv.Timer = &TmrDrv; Drv.Nvm = &NvmDrv;
    Spec.Drv = &Drv;
    Spec.Dict = Dict;
    Spec.DictLen = (uint16_t)(DictMax >= 0 ? DictMax : NOd + 1);
    Spec.EmcyCode = EmcyNull ? NULL : EmcyTbl;
    if (TmrMem == NULL) TmrMem = xalloc(sizeof(CO_TMR_MEM) * Spec.TmrNum);       /* exactly the configured pool, also when that is no block at all */
    Spec.TmrMem = TmrMem;
    if (SdoBuf == NULL) SdoBuf = xalloc(CO_SDO_BUF_BYTE * CO_SSDO_N);
    memset(SdoBuf, 0, CO_SDO_BUF_BYTE * CO_SSDO_N);
    Spec.SdoBuf = SdoBuf;
    LockDepth = 0; RxHave = 0;
    CONodeInit(Node, &Spec);
}

/* ------------------------------------------------------------ invariants */
static int in_tmrmem(void *p) { return (uint8_t *)p >= (uint8_t *)TmrMem && (uint8_t *)p < (uint8_t *)(TmrMem + Spec.TmrNum); }
static int in_dict(void *p)   { return (uint8_t *)p >= (uint8_t *)Dict && (uint8_t *)p < (uint8_t *)(Dict + NOd + 1); }
static int Quiet;  /* node not initialised yet */

static int walk_time(CO_TMR_TIME *t, int max, int *nacts, int used, const char *nm)
{
    int n = 0;
    while (t) {
        if (!in_tmrmem(t)) { printf("inv tmr-%s-ptr-outside\n", nm); return -1; }
        if (++n > max) { printf("inv tmr-%s-cycle-or-too-long\n", nm); return -1; }
        CO_TMR_ACTION *a = t->Action, *last = 0; int k = 0;
        while (a) {
            if (!in_tmrmem(a)) { printf("inv tmr-%s-action-ptr-outside\n", nm); return -1; }
            if (++k > max) { printf("inv tmr-%s-action-cycle\n", nm); return -1; }
            if (a->Func == 0) printf("inv tmr-%s-action-without-func id=%u\n", nm, a->Id);
            last = a; a = a->Next;
        }
        if (used == 1 && k == 0) printf("inv tmr-use-event-without-action\n");
        if (k > 0 && t->ActionEnd != last) printf("inv tmr-%s-actionend-wrong\n", nm);
        if (used == 1 && n > 1 && t->Delta == 0) printf("inv tmr-use-zero-delta\n");
        *nacts += k;
        t = t->Next;
    }
    return n;
}
static void invariants(void)
{
    if (Quiet) return;
    CO_TMR *tm = &Node->Tmr;
    int max = (int)tm->Max;
    int au = 0, ae = 0, af = 0;
    int nu = walk_time(tm->Use, max, &au, 1, "use");
    int ne = walk_time(tm->Elapsed, max, &ae, 2, "elapsed");
    int nf = walk_time(tm->Free, max, &af, 0, "free");
    if (nu >= 0 && ne >= 0 && nf >= 0) {
        if (nu + ne + nf != max) printf("inv tmr-conservation use=%d elapsed=%d free=%d max=%d\n", nu, ne, nf, max);
        if (af != 0) printf("inv tmr-free-event-with-action\n");
        int na = 0; CO_TMR_ACTION *a = tm->Acts;
        while (a) { if (!in_tmrmem(a)) { printf("inv tmr-acts-ptr-outside\n"); na = -1; break; }
                    if (++na > max) { printf("inv tmr-acts-cycle\n"); na = -1; break; } a = a->Next; }
        if (na >= 0 && na + au + ae != max) printf("inv tmr-action-conservation free=%d use=%d elapsed=%d max=%d\n", na, au, ae, max);
        if ((HwCnt != 0) != (nu != 0)) printf("inv tmr-hw-counter hw=%u use=%d\n", HwCnt, nu);
    }
    if (LockDepth != 0 || LockBad) { printf("inv tmr-lock-unbalanced depth=%d bad=%d\n", LockDepth, LockBad); LockBad = 0; LockDepth = 0; }
    for (int n = 0; n < CO_SSDO_N; n++) {
        CO_SDO *s = &Node->Sdo[n];
        uint8_t *st = SdoBuf + n * CO_SDO_BUF_BYTE;
        if (s->Buf.Start != st) printf("inv sdo%d-buf-start\n", n);
        if (s->Buf.Cur < st || s->Buf.Cur > st + CO_SDO_BUF_BYTE) printf("inv sdo%d-buf-cur off=%ld\n", n, (long)(s->Buf.Cur - st));
        if (s->Buf.Num > CO_SDO_BUF_BYTE) printf("inv sdo%d-buf-num %u\n", n, s->Buf.Num);
        if ((unsigned)s->Blk.State > BLK_DNWAIT) printf("inv sdo%d-blk-state %d\n", n, (int)s->Blk.State);
        if (s->Obj != 0 && !in_dict(s->Obj)) printf("inv sdo%d-obj-ptr\n", n);
    }
    { /* heartbeat consumer chain */
        CO_HBCONS *h = Node->Nmt.HbCons; int k = 0; uint8_t seen[256]; memset(seen, 0, sizeof seen);
        while (h) {
            int ok = 0;
            for (int i = 0; i < NOd; i++) if (Od[i].kind == K_HBC && Od[i].hbc == h) ok = 1;
            if (!ok) { printf("inv hbc-chain-foreign-element\n"); break; }
            if (++k > NOd + 1) { printf("inv hbc-chain-cycle\n"); break; }
            if (seen[h->NodeId]) printf("inv hbc-chain-duplicate-node %u\n", h->NodeId);
            seen[h->NodeId] = 1;
            h = h->Next;
        }
    }
    for (int n = 0; n < CO_TPDO_N; n++) {
        CO_TPDO *p = &Node->TPdo[n];
        if (p->ObjNum > 8) printf("inv tpdo%d-objnum %u\n", n, p->ObjNum);
        for (int i = 0; i < 8 && i < p->ObjNum; i++) if (p->Map[i] && !in_dict(p->Map[i])) printf("inv tpdo%d-map-ptr\n", n);
        if (Node->Sync.TPdo[n] && Node->Sync.TPdo[n] != p) printf("inv sync-tpdo-ptr %d\n", n);
    }
    for (int n = 0; n < CO_RPDO_N; n++) {
        CO_RPDO *p = &Node->RPdo[n];
        if (p->ObjNum > 8) printf("inv rpdo%d-objnum %u\n", n, p->ObjNum);
        for (int i = 0; i < 8 && i < p->ObjNum; i++) if (p->Map[i] && !in_dict(p->Map[i])) printf("inv rpdo%d-map-ptr\n", n);
        if (Node->Sync.RPdo[n] && Node->Sync.RPdo[n] != p) printf("inv sync-rpdo-ptr %d\n", n);
    }
    for (int i = 0; i < CO_TPDO_N * 8; i++) {
        CO_TPDO_LINK *l = &Node->TMap[i];
        if (l->Obj && !in_dict(l->Obj)) printf("inv tmap-obj-ptr %d\n", i);
        if (l->Obj && l->Num >= CO_TPDO_N) printf("inv tmap-num %d\n", i);
    }
    if (canary_check()) printf("inv canary-overwritten\n");
}

/* ------------------------------------------------------------- watchdog */
static void on_vtalrm(int sig)
{
    (void)sig;
    static const char m[] = "\nWATCHDOG step exceeded CPU budget\n";
    void *bt[48]; int n;
    if (write(2, m, sizeof m - 1) < 0) { }
    n = backtrace(bt, 48);
    backtrace_symbols_fd(bt, n, 2);
    _exit(97);
}
static void arm(int on)
{
    struct itimerval it; memset(&it, 0, sizeof it);
    if (on) it.it_value.tv_sec = 2;
    setitimer(ITIMER_VIRTUAL, &it, NULL);
}

/* ------------------------------------------------------- introspection */
static void occ(void)
{
    CO_TMR *tm = &Node->Tmr; int c[8] = {0}; int total = 0; int elapsed = 0;
    CO_TMR_TIME *lists[2] = { tm->Use, tm->Elapsed };
    for (int l = 0; l < 2; l++) {
        int guard = 0;
        for (CO_TMR_TIME *t = lists[l]; t && guard < (int)tm->Max + 1; t = t->Next, guard++) {
            int g2 = 0;
            for (CO_TMR_ACTION *a = t->Action; a && g2 < (int)tm->Max + 1; a = a->Next, g2++) {
                uint8_t *p = (uint8_t *)a->Para; int k = 7; total++; elapsed += l;
                if (p == (uint8_t *)&Node->Nmt) k = 0;
                else if (p >= (uint8_t *)Node->TPdo && p < (uint8_t *)(Node->TPdo + CO_TPDO_N)) k = 1;
                else if (p == (uint8_t *)&Node->Sync) k = 2;
#if USE_CSDO
                else if (p >= (uint8_t *)Node->CSdo && p < (uint8_t *)(Node->CSdo + CO_CSDO_N)) k = 3;
#endif
#if USE_LSS
                else if (p == (uint8_t *)&Node->Lss) k = 4;
#endif
                else if (p >= (uint8_t *)AppTag && p < (uint8_t *)(AppTag + 256)) k = 6;
                else for (int i = 0; i < NOd; i++) if (Od[i].kind == K_HBC && (uint8_t *)Od[i].hbc == p) k = 5;
                c[k]++;
            }
        }
    }
    printf("occ total=%d hbprod=%d tpdo=%d sync=%d csdo=%d lss=%d hbc=%d app=%d other=%d elapsed=%d use=%d\n",
           total, c[0], c[1], c[2], c[3], c[4], c[5], c[6], c[7], elapsed, total - elapsed);
}
static void state(void)
{
    printf("st mode=%d allowed=%u err=%d nodeid=%u baud=%u nmttmr=%d", (int)Node->Nmt.Mode, Node->Nmt.Allowed,
           (int)Node->Error, Node->NodeId, Node->Baudrate, Node->Nmt.Tmr);
    for (int n = 0; n < CO_SSDO_N; n++) {
        CO_SDO *s = &Node->Sdo[n];
        printf(" sdo%d=%d,%d,%u,%u,%u,%u,%u,%u,%x,%x", n, (int)s->Blk.State, s->Obj != 0, s->Seg.TBit, s->Seg.Size,
               s->Buf.Num, s->Blk.SegCnt, s->Blk.Len, s->Idx, s->RxId, s->TxId);
    }
#if USE_LSS
    printf(" lss=%u,%u,%u,%u,%u,%d", Node->Lss.Mode, Node->Lss.Step, Node->Lss.Flags, Node->Lss.CfgNodeId, Node->Lss.CfgBaudrate, Node->Lss.Tmr);
#else
    printf(" lss=0,0,0,0,0,-1");
#endif
#if USE_CSDO
    for (int n = 0; n < CO_CSDO_N; n++) printf(" csdo%d=%d,%d,%d", n, (int)Node->CSdo[n].State, (int)Node->CSdo[n].Tfer.Type, Node->CSdo[n].Tfer.Tmr);
#else
    printf(" csdo0=0,0,-1");
#endif
    printf(" sync=%x,%d,%u emcy=%u,%u,%u\n", Node->Sync.CobId, Node->Sync.Tmr, Node->Sync.Cycle,
           Node->Emcy.Hist.Max, Node->Emcy.Hist.Num, Node->Emcy.Hist.Off);
}
static void peek(int i)
{
    ODESC *d = &Od[i];
    printf("mem %d ", i);
    switch (d->kind) {
    case K_DIRECT: printf("%08x", (uint32_t)Dict[i].Data); break;
    case K_VAR: hex(d->store, (size_t)d->width); break;
    case K_STR: hex(d->str->Start, d->storelen); break;
    case K_DOM: hex(d->dom->Start, d->storelen); break;
    case K_HBC: printf("%u,%u,%u,%d,%d", d->hbc->NodeId, d->hbc->Time, d->hbc->Event, (int)d->hbc->State, d->hbc->Tmr); break;
    case K_USR: hex(((USRO *)d->store)->val, 8); printf(",%u", ((USRO *)d->store)->initcnt); break;
    default: printf("-"); break;
    }
    printf("\n");
}
static void dump(void)
{
    printf("dump");
    for (int i = 0; i < NOd; i++) {
        ODESC *d = &Od[i];
        printf(" ");
        switch (d->kind) {
        case K_DIRECT: printf("%x", (uint32_t)Dict[i].Data); break;
        case K_VAR: if (d->width == 1) printf("%x", *(uint8_t *)d->store); else if (d->width == 2) printf("%x", *(uint16_t *)d->store); else printf("%x", *(uint32_t *)d->store); break;
        case K_STR: hex(d->str->Start, d->storelen); break;
        case K_DOM: hex(d->dom->Start, d->storelen); break;
        case K_HBC: printf("%u:%u", d->hbc->NodeId, d->hbc->Time); break;
        case K_GRP: { uint32_t v = 0; memcpy(&v, Pg[d->gid].ram + d->init, (size_t)d->width); printf("%x", v); } break;
        case K_USR: hex(((USRO *)d->store)->val, 4); break;
        default: printf("-"); break;
        }
    }
    printf("\n");
}

/* ---------------------------------------------------------------- main */
#define ARG(n) (argc > (n) ? argv[n] : "0")
#define U(n) ((uint32_t)strtoul(ARG(n), NULL, 0))
#define X(n) ((uint32_t)strtoul(ARG(n), NULL, 16))

int main(void)
{
    static char line[20000];
    static uint8_t tmp[9000];
    setvbuf(stdout, NULL, _IOFBF, 1 << 16);
    signal(SIGVTALRM, on_vtalrm);
    Quiet = 1;
    Spec.NodeId = 1; Spec.Baudrate = 250000; Spec.TmrFreq = 1000; Spec.TmrNum = 16;

    while (fgets(line, sizeof line, stdin)) {
        char *argv[64]; int argc = 0;
        char *save = NULL;
        for (char *t = strtok_r(line, " \t\r\n", &save); t && argc < 64; t = strtok_r(NULL, " \t\r\n", &save)) argv[argc++] = t;
        if (argc == 0) continue;
        const char *c = argv[0];
        int step = 1;       /* emit end marker + invariants */
        arm(1);

        if (!strcmp(c, "cfg")) {          /* cfg nodeid baud freq tmrnum fill dictmax emcynull */
            Spec.NodeId = (uint8_t)U(1); Spec.Baudrate = U(2); Spec.TmrFreq = U(3); Spec.TmrNum = (uint16_t)U(4);
            NodeFill = (uint8_t)U(5); DictMax = (int)strtol(ARG(6), NULL, 0); EmcyNull = (int)U(7); step = 0;
        } else if (!strcmp(c, "obj")) {   /* obj idx sub flags type kind args.. */
            if (NOd >= MAXOBJ) die("too many objects");
            ODESC *d = &Od[NOd]; memset(d, 0, sizeof *d);
            d->key = CO_KEY(X(1), X(2), X(3));
            d->type = type_by_name(ARG(4));
            const char *k = ARG(5);
            if (!strcmp(k, "D")) { d->kind = K_DIRECT; d->init = U(6); }
            else if (!strcmp(k, "V")) { d->kind = K_VAR; d->width = (int)U(6); d->init = U(7); d->store = xalloc((size_t)d->width); }
            else if (!strcmp(k, "S")) { d->kind = K_STR; size_t n = unhex(ARG(6), tmp, sizeof tmp - 1); tmp[n] = 0;
                d->storelen = n + 1; d->initbytes = malloc(n + 1); memcpy(d->initbytes, tmp, n + 1);
                d->str = xalloc(sizeof(CO_OBJ_STR)); d->str->Start = xalloc(n + 1); }
            else if (!strcmp(k, "M")) { d->kind = K_DOM; size_t sz = U(6); size_t n = ARG(7)[0] == '@' ? 0 : unhex(ARG(7), tmp, sizeof tmp);
                d->storelen = sz; d->initbytes = calloc(sz ? sz : 1, 1); memcpy(d->initbytes, tmp, n < sz ? n : sz);
                if (ARG(7)[0] == '@') {      /* "@<seed>": content by formula (domains too large for a configuration line) */
                    unsigned long sd = strtoul(ARG(7) + 1, NULL, 0);
                    for (size_t i = 0; i < sz; i++) d->initbytes[i] = (uint8_t)(i * 167u + (i >> 8) * 13u + sd);
                }
                d->dom = xalloc(sizeof(CO_OBJ_DOM)); d->dom->Start = xalloc(sz); d->dom->Size = (uint32_t)sz; }
            else if (!strcmp(k, "H")) { d->kind = K_HBC; d->hb_node = (uint8_t)U(6); d->hb_time = (uint16_t)U(7); d->hbc = xalloc(sizeof(CO_HBCONS)); }
            else if (!strcmp(k, "P")) { d->kind = K_PARA; d->gid = (int)U(6); }
            else if (!strcmp(k, "G")) { d->kind = K_GRP; d->gid = (int)U(6); d->init = U(7); d->width = (int)U(8); }
            else if (!strcmp(k, "N")) { d->kind = K_NULL; }
            else if (!strcmp(k, "U")) { d->kind = K_USR; USRO *u = xalloc(sizeof(USRO)); d->store = u;
                u->size = U(6); u->rderr = U(7); u->wrerr = U(8); u->abortc = X(9); d->init = U(10); }
            else die("bad kind");
            NOd++; step = 0;
        } else if (!strcmp(c, "emcy")) {  /* emcy reg code */
            EmcyTbl = realloc(EmcyTbl, sizeof(CO_EMCY_TBL) * (size_t)(NEmcy + 1));
            EmcyTbl[NEmcy].Reg = (uint8_t)U(1); EmcyTbl[NEmcy].Code = (uint16_t)X(2); NEmcy++; step = 0;
        } else if (!strcmp(c, "emcydone")) {  /* move table to an exact-size block */
            CO_EMCY_TBL *t = xalloc(sizeof(CO_EMCY_TBL) * (size_t)(NEmcy ? NEmcy : 1));
            if (NEmcy) memcpy(t, EmcyTbl, sizeof(CO_EMCY_TBL) * (size_t)NEmcy);
            free(EmcyTbl); EmcyTbl = t; step = 0;
        } else if (!strcmp(c, "para")) {  /* para gid offset size type value hasdef raminithex defhex */
            int g = (int)U(1); if (g < 0 || g >= MAXPG) die("bad group");
            PGRP *p = &Pg[g]; p->used = 1;
            p->pg.Offset = U(2); p->pg.Size = U(3); p->pg.Type = (enum CO_NMT_RESET_T)U(4); p->pg.Value = U(5);
            p->ram = xalloc(p->pg.Size); p->raminit = calloc(p->pg.Size ? p->pg.Size : 1, 1);
            unhex(ARG(7), p->raminit, p->pg.Size);
            p->pg.Start = p->ram;
            if (U(6)) { p->def = xalloc(p->pg.Size); unhex(ARG(8), p->def, p->pg.Size); p->pg.Default = p->def; }
            step = 0;
        } else if (!strcmp(c, "nvm")) {   /* nvm size [hex] */
            NvmSize = U(1); Nvm = xalloc(NvmSize); memset(Nvm, 0xFF, NvmSize ? NvmSize : 1);
            if (argc > 2) unhex(ARG(2), Nvm, NvmSize);
            step = 0;
        } else if (!strcmp(c, "lsspreset")) { LssHave = 1; LssBaud = U(1); LssNode = (uint8_t)U(2); step = 0;
        } else if (!strcmp(c, "init"))  { do_init(); Quiet = 0;
        } else if (!strcmp(c, "restart")) { Tick = 0; HwCnt = 0; McbAct = 0; RcbAct = 0; RinCb = 0; HccSub = 0; HecSub = 0; do_init();
        } else if (!strcmp(c, "reinit")) {  /* the documented restart: stop, init and start again on the RAM as it is (no dictionary rebuild) */
            CONodeStop(Node); LockDepth = 0; RxHave = 0; CONodeInit(Node, &Spec);
        } else if (!strcmp(c, "start")) { CONodeStart(Node);
        } else if (!strcmp(c, "stop"))  { CONodeStop(Node);
        } else if (!strcmp(c, "rx")) {    /* rx idhex dlc datahex */
            memset(&RxFrm, 0, sizeof RxFrm);
            RxFrm.Identifier = X(1); RxFrm.DLC = (uint8_t)U(2); unhex(ARG(3), RxFrm.Data, 8); RxHave = 1;
            CONodeProcess(Node);
        } else if (!strcmp(c, "proc")) { CONodeProcess(Node);
        } else if (!strcmp(c, "tick")) {  /* tick n : service+process per tick */
            uint32_t n = argc > 1 ? U(1) : 1;
            while (n--) { Tick++; (void)COTmrService(&Node->Tmr); COTmrProcess(&Node->Tmr); }
        } else if (!strcmp(c, "svc")) {   /* service only */
            uint32_t n = argc > 1 ? U(1) : 1;
            while (n--) { Tick++; (void)COTmrService(&Node->Tmr); }
        } else if (!strcmp(c, "tproc")) { COTmrProcess(&Node->Tmr);
        } else if (!strcmp(c, "hbeventcb")) { HecSub = (int)strtol(ARG(1), NULL, 0); HecV1 = argc > 2 ? X(2) : 0; HecV2 = argc > 3 ? X(3) : HecV1;
        } else if (!strcmp(c, "hbchangecb")) { HccSub = (int)U(1); HccV1 = X(2); HccV2 = X(3);
        } else if (!strcmp(c, "initcb")) { IcbIdx = X(1); IcbSub = argc > 2 ? X(2) : 0; IcbVal = argc > 3 ? U(3) : 0;
        } else if (!strcmp(c, "ramfillcb")) { McbRamFill = (int)strtol(ARG(1), NULL, 0); step = 0;
        } else if (!strcmp(c, "modecb")) { McbMode = (int)U(1); McbAct = !strcmp(ARG(2), "setmode") ? 1 : !strcmp(ARG(2), "trigpdo") ? 2 : 0; McbArg = argc > 3 ? (int)U(3) : 0;
        } else if (!strcmp(c, "resetin")) { RinCb = !strcmp(ARG(1), "hbevent") ? 1 : !strcmp(ARG(1), "hbchange") ? 2 : !strcmp(ARG(1), "apptmr") ? 3 : !strcmp(ARG(1), "csdo") ? 4 : 0; RinType = argc > 2 ? (int)U(2) : 2;
        } else if (!strcmp(c, "resetcb")) { RcbAct = !strcmp(ARG(1), "setmode") ? 1 : 0; RcbArg = argc > 2 ? (int)U(2) : 0;
        } else if (!strcmp(c, "setmode")) { CONmtSetMode(&Node->Nmt, (CO_MODE)U(1));
        } else if (!strcmp(c, "getmode")) { printf("ret %d\n", (int)CONmtGetMode(&Node->Nmt));
        } else if (!strcmp(c, "nmtreset")) { CONmtReset(&Node->Nmt, (CO_NMT_RESET)U(1));
        } else if (!strcmp(c, "setnodeid")) { CONmtSetNodeId(&Node->Nmt, (uint8_t)U(1));
        } else if (!strcmp(c, "getnodeid")) { printf("ret %u\n", CONmtGetNodeId(&Node->Nmt));
        } else if (!strcmp(c, "geterr")) { printf("ret %d\n", (int)CONodeGetErr(Node));
        } else if (!strcmp(c, "emcyset")) {   /* emcyset n [hist e0e1e2e3e4hex] */
            if (argc > 2) { CO_EMCY_USR u; memset(&u, 0, sizeof u); u.Hist = (uint16_t)X(2); unhex(ARG(3), u.Emcy, 5); COEmcySet(&Node->Emcy, (uint8_t)U(1), &u); }
            else COEmcySet(&Node->Emcy, (uint8_t)U(1), NULL);
        } else if (!strcmp(c, "emcyclr")) { COEmcyClr(&Node->Emcy, (uint8_t)U(1));
        } else if (!strcmp(c, "emcyget")) { printf("ret %d\n", COEmcyGet(&Node->Emcy, (uint8_t)U(1)));
        } else if (!strcmp(c, "emcycnt")) { printf("ret %d\n", COEmcyCnt(&Node->Emcy));
        } else if (!strcmp(c, "emcyreset")) { COEmcyReset(&Node->Emcy, (uint8_t)U(1));
        } else if (!strcmp(c, "trigpdo")) { COTPdoTrigPdo(Node->TPdo, (uint16_t)U(1));
        } else if (!strcmp(c, "trigobj")) {   /* trigobj idx sub */
            CO_OBJ *o = CODictFind(&Node->Dict, CO_DEV(X(1), X(2)));
            if (o) COTPdoTrigObj(Node->TPdo, o); else printf("ret notfound\n");
        } else if (!strcmp(c, "rd")) {    /* rd idx sub width */
            uint32_t w = U(3), key = CO_DEV(X(1), X(2)); CO_ERR e;
            if (w == 1) { uint8_t v = 0; e = CODictRdByte(&Node->Dict, key, &v); printf("ret %d %x\n", (int)e, v); }
            else if (w == 2) { uint16_t v = 0; e = CODictRdWord(&Node->Dict, key, &v); printf("ret %d %x\n", (int)e, v); }
            else { uint32_t v = 0; e = CODictRdLong(&Node->Dict, key, &v); printf("ret %d %x\n", (int)e, v); }
        } else if (!strcmp(c, "wr")) {    /* wr idx sub width valhex */
            uint32_t w = U(3), key = CO_DEV(X(1), X(2)), v = X(4); CO_ERR e;
            if (w == 1) e = CODictWrByte(&Node->Dict, key, (uint8_t)v);
            else if (w == 2) e = CODictWrWord(&Node->Dict, key, (uint16_t)v);
            else e = CODictWrLong(&Node->Dict, key, v);
            printf("ret %d\n", (int)e);
        } else if (!strcmp(c, "rdbuf")) { /* rdbuf idx sub len */
            uint32_t len = U(3); uint8_t *b = xalloc(len ? len : 1);
            CO_ERR e = CODictRdBuffer(&Node->Dict, CO_DEV(X(1), X(2)), b, len);
            printf("ret %d ", (int)e); hex(b, len); printf("\n");
        } else if (!strcmp(c, "wrbuf")) { /* wrbuf idx sub hex */
            size_t n = unhex(ARG(3), tmp, sizeof tmp); uint8_t *b = xalloc(n ? n : 1); memcpy(b, tmp, n);
            CO_ERR e = CODictWrBuffer(&Node->Dict, CO_DEV(X(1), X(2)), b, (uint32_t)n);
            printf("ret %d\n", (int)e);
        } else if (!strcmp(c, "find")) {  /* find keyhex */
            CO_OBJ *o = CODictFind(&Node->Dict, X(1));
            printf("ret %d\n", o ? (int)(o - Dict) : -1);
        } else if (!strcmp(c, "hbevents")) { printf("ret %d\n", CONmtGetHbEvents(&Node->Nmt, (uint8_t)U(1)));
        } else if (!strcmp(c, "hblast"))   { printf("ret %d\n", (int)CONmtLastHbState(&Node->Nmt, (uint8_t)U(1)));
        } else if (!strcmp(c, "tmrcreate")) { /* tmrcreate start cycle tag */
            int tag = (int)U(3) & 255; AppTag[tag] = tag;
            printf("ret %d\n", COTmrCreate(&Node->Tmr, U(1), U(2), app_tmr, &AppTag[tag]));
        } else if (!strcmp(c, "tmrdelete")) { printf("ret %d\n", COTmrDelete(&Node->Tmr, (int16_t)strtol(ARG(1), NULL, 0)));
        } else if (!strcmp(c, "getticks")) { printf("ret %u\n", COTmrGetTicks(&Node->Tmr, (uint16_t)U(1), U(2)));
        } else if (!strcmp(c, "mintime"))  { printf("ret %u\n", COTmrGetMinTime(&Node->Tmr, U(1)));
#if !USE_CSDO
        } else if (!strcmp(c, "csdoup") || !strcmp(c, "csdodown")) { printf("ret nocsdo\n");
#else
        } else if (!strcmp(c, "csdoup")) {  /* csdoup num idx sub size timeout */
            int n = (int)U(1); CO_CSDO *cs = COCSdoFind(Node, (uint8_t)n);
            if (!cs) printf("ret nocsdo\n");
            else { uint32_t sz = U(4); uint8_t *b = xalloc(sz ? sz : 1); memset(b, 0xEE, sz ? sz : 1);
                   CO_ERR e = COCSdoRequestUpload(cs, CO_DEV(X(2), X(3)), b, sz, csdo_cb, U(5));
                   if (e == CO_ERR_NONE) { CsBuf[n] = b; CsLen[n] = sz; }      /* a refused request leaves the running transfer's buffer alone */
                   printf("ret %d\n", (int)e); }
        } else if (!strcmp(c, "csdodown")) { /* csdodown num idx sub hex timeout */
            int n = (int)U(1); CO_CSDO *cs = COCSdoFind(Node, (uint8_t)n);
            if (!cs) printf("ret nocsdo\n");
            else { size_t sz = unhex(ARG(4), tmp, sizeof tmp); uint8_t *b = xalloc(sz ? sz : 1); memcpy(b, tmp, sz);
                   CO_ERR e = COCSdoRequestDownload(cs, CO_DEV(X(2), X(3)), b, (uint32_t)sz, csdo_cb, U(5));
                   if (e == CO_ERR_NONE) { CsBuf[n] = b; CsLen[n] = (uint32_t)sz; }
                   printf("ret %d\n", (int)e); }
#endif
        } else if (!strcmp(c, "pdotxprobe")) { PtxEmcy = (int)U(1);
        } else if (!strcmp(c, "pdotxcb")) { PtxNum = (int)strtol(ARG(1), NULL, 0);
        } else if (!strcmp(c, "appclear")) { PtxNum = -1; CbReqTmo = 0; CbReqRes = -1; CbEmcy = 0; CbTmrTag = -1; HecSub = 0; HccSub = 0; McbAct = 0; RcbAct = 0; RinCb = 0;   /* the scripted application forgets its plans */
        } else if (!strcmp(c, "csdocbreq")) { CbReqTmo = U(1); CbReqRes = -1;
        } else if (!strcmp(c, "csdocbreqres")) { printf("ret %d\n", CbReqRes); CbReqRes = -1;
        } else if (!strcmp(c, "csdocbemcy")) { CbEmcy = 1;
        } else if (!strcmp(c, "csdocbtimer")) { CbTmrStart = U(1); CbTmrTag = (int)U(2) & 255;     /* csdocbtimer start tag */
#if USE_CSDO
        } else if (!strcmp(c, "csdobuf")) { int n = (int)U(1); printf("ret "); hex(CsBuf[n], CsLen[n]); printf("\n");
#endif
        } else if (!strcmp(c, "fault")) {   /* fault what k [short] */
            const char *w = ARG(1); int k = (int)U(2);
            if (!strcmp(w, "cansend")) F_cansend = k; else if (!strcmp(w, "canread")) F_canread = k;
            else if (!strcmp(w, "nvmread")) { F_nvmread = k; F_nvmshort = argc > 3 ? (int)U(3) : 1; }
            else if (!strcmp(w, "nvmwrite")) { F_nvmwrite = k; F_nvmshort = argc > 3 ? (int)U(3) : 1; }
            else if (!strcmp(w, "lssload")) F_lssload = k; else if (!strcmp(w, "lssstore")) F_lssstore = k;
            else if (!strcmp(w, "paradef")) F_paradef = k; else if (!strcmp(w, "pdoveto")) PdoVeto = k;
            else die("bad fault");
        } else if (!strcmp(c, "state")) { state();
        } else if (!strcmp(c, "occ"))   { occ();
        } else if (!strcmp(c, "peek"))  { peek((int)U(1));
        } else if (!strcmp(c, "dump"))  { dump();
        } else if (!strcmp(c, "nvmdump")) { printf("ret "); hex(Nvm, NvmSize); printf("\n");
        } else if (!strcmp(c, "ramdump")) { int g = (int)U(1); printf("ret "); hex(Pg[g].ram, Pg[g].pg.Size); printf("\n");
        } else if (!strcmp(c, "ramset")) { int g = (int)U(1); unhex(ARG(2), Pg[g].ram, Pg[g].pg.Size);
        } else if (!strcmp(c, "tpdo")) { int n = (int)U(1); CO_TPDO *p = &Node->TPdo[n];
            printf("ret %x %u %u %d %d %u %u", p->Identifier, p->ObjNum, p->Flags, p->EvTmr, p->InTmr, p->Event, p->Inhibit);
            for (int i = 0; i < 8; i++) printf(" %d:%u", p->Map[i] ? (int)(p->Map[i] - Dict) : -1, p->Size[i]); printf("\n");
        } else if (!strcmp(c, "rpdo")) { int n = (int)U(1); CO_RPDO *p = &Node->RPdo[n];
            printf("ret %x %u %u", p->Identifier, p->ObjNum, p->Flag);
            for (int i = 0; i < 8; i++) printf(" %d:%u", p->Map[i] ? (int)(p->Map[i] - Dict) : -1, p->Size[i]); printf("\n");
        } else if (!strcmp(c, "quit")) { arm(0); break;
        } else { die("unknown command"); }

        arm(0);
        if (step) { invariants(); printf(". %u\n", Tick); fflush(stdout); }
    }
    return 0;
}
