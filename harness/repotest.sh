#!/bin/sh
# Build the repository the way the baseline was produced (RelWithDebInfo, -Wno-error,
# keep going past the unit tests that cannot link without _DEBUG) and run ctest.
# usage: repotest.sh <repo> <builddir>   -> prints "<passed> passed"; junit in <builddir>/junit.xml
REPO=${1:-/repo}; B=${2:?builddir}
mkdir -p "$B" || exit 2
if [ ! -f "$B/build.ninja" ]; then
  cmake -G Ninja -S "$REPO" -B "$B" -DCMAKE_BUILD_TYPE=RelWithDebInfo -DCMAKE_C_FLAGS=-Wno-error > "$B/cmake.log" 2>&1 || { tail -20 "$B/cmake.log"; exit 2; }
fi
ninja -C "$B" -k 0 > "$B/build.log" 2>&1
ctest --test-dir "$B" -j8 --timeout 900 --output-junit "$B/junit.xml" > "$B/ctest.log" 2>&1
python3 - "$B/junit.xml" <<'PY'
import sys, json, os, xml.etree.ElementTree as ET
passed=set(); failed=[]
for tc in ET.parse(sys.argv[1]).getroot().iter('testcase'):
    ok = tc.get('status')=='run' and tc.find('failure') is None
    (passed.add(tc.get('name')) if ok else failed.append((tc.get('name'), tc.get('status'))))
missing=[]
if os.path.exists('/root/.vp/BASELINE.json'):
    want=set(x.split('::')[0] for x in json.load(open('/root/.vp/BASELINE.json'))['stable_pass'])
    missing=sorted(want-passed)
realfail=[n for n,s in failed if s=='run']
print("%d passed, %d failed, %d of the stable baseline set not passing" % (len(passed), len(realfail), len(missing)))
for m in missing[:30]: print("  not passing:", m)
sys.exit(1 if (missing or realfail) else 0)
PY
