/* dictcheck - C06 engine: dictionary lookup and typed/buffer access against
 * independent oracles (linear scan, plain arithmetic, memcmp).  All arrays
 * handed to the stack are malloc blocks of exactly the declared size, so any
 * access beyond the end marker or a user buffer is an ASan report.
 *
 * usage: dictcheck <seed> <random_dicts> <random32>
 * output: "viol <key> <text>" / "stat <name> <value>" / "sample <text>" lines
 */
#define _GNU_SOURCE
#include <stdio.h>
#include <stdlib.h>
#include <string.h>
#include <stdint.h>
#include "co_core.h"

static uint64_t Rng;
static uint32_t rnd(void) { Rng ^= Rng << 13; Rng ^= Rng >> 7; Rng ^= Rng << 17; return (uint32_t)(Rng >> 16); }

static unsigned long NViol;
#define VIOL(key, ...) do { if (NViol++ < 60) { printf("viol %s ", key); printf(__VA_ARGS__); printf("\n"); } } while (0)

/* drivers / callbacks needed for CONodeInit */
static void v0(void) {} static void v1(uint32_t x) { (void)x; }
static int16_t rdf(CO_IF_FRM *f) { (void)f; return 0; } static int16_t sdf(CO_IF_FRM *f) { (void)f; return (int16_t)sizeof(*f); }
static uint32_t dly(void) { return 0; } static uint8_t upd(void) { return 0; }
static uint32_t nvr(uint32_t a, uint8_t *b, uint32_t c) { (void)a; (void)b; return c; }
static const CO_IF_CAN_DRV Can = { v0, v1, rdf, sdf, v0, v0 };
static const CO_IF_TIMER_DRV Tm = { v1, v1, dly, v0, v0, upd };
static const CO_IF_NVM_DRV Nv = { v0, nvr, nvr };
static CO_IF_DRV Drv = { &Can, &Tm, &Nv };
void CONodeFatalError(void) { VIOL("fatal", "CONodeFatalError called"); }

/* counting type for init-exactly-once */
static uint32_t cnt_size(CO_OBJ *o, CO_NODE *n, uint32_t w) { (void)o; (void)n; (void)w; return 4; }
static CO_ERR cnt_init(CO_OBJ *o, CO_NODE *n) { (void)n; (*(uint32_t *)o->Data)++; return CO_ERR_NONE; }
static CO_ERR cnt_rd(CO_OBJ *o, CO_NODE *n, void *b, uint32_t s) { (void)o; (void)n; (void)b; (void)s; return CO_ERR_NONE; }
static const CO_OBJ_TYPE CntType = { cnt_size, cnt_init, cnt_rd, 0, 0 };
/* the same, but the initialisation reports a failure (NVM not readable, no timer left, ...) */
static CO_ERR cntf_init(CO_OBJ *o, CO_NODE *n) { (void)n; (*(uint32_t *)o->Data)++; return CO_ERR_TYPE_INIT; }
static const CO_OBJ_TYPE CntFailType = { cnt_size, cntf_init, cnt_rd, 0, 0 };

static CO_NODE Node;

static CO_OBJ *oracle_find(CO_OBJ *root, int n, uint32_t key)
{
    if ((key & 0xFFFFFF00u) == 0 && key == 0) return NULL;
    for (int i = 0; i < n; i++) if ((root[i].Key & 0xFFFFFF00u) == (key & 0xFFFFFF00u)) return &root[i];
    return NULL;
}

static unsigned long NLook, NDict, NHit, NMiss;

static void probe(CO_DICT *cod, CO_OBJ *root, int n, uint32_t key, const char *what)
{
    CO_OBJ *got = CODictFind(cod, key);
    CO_OBJ *want = oracle_find(root, n, key);
    NLook++;
    if (want) NHit++; else NMiss++;
    if (got != want) {
        VIOL("find", "%s: dictionary of %d entries, key %08x: found %s, oracle %s", what, n, key,
             got ? (got == &root[n] ? "END-MARKER" : "other entry") : "NULL", want ? "entry" : "NULL");
    }
}

/* (a) exhaustive small scope */
static void part_small(void)
{
    static const uint32_t U[8] = { CO_KEY(0x0001, 0, 0x02), CO_KEY(0x1000, 0, 0x82), CO_KEY(0x1000, 1, 0x03), CO_KEY(0x1000, 0xFF, 0x00),
                                   CO_KEY(0x1001, 0, 0x06), CO_KEY(0x2000, 2, 0x4B), CO_KEY(0xFFFF, 0, 0xFF), CO_KEY(0xFFFF, 0xFF, 0x01) };
    static const uint32_t Extra[] = { CO_KEY(0, 0, 0), CO_KEY(0, 0, 0xFF), CO_KEY(0, 1, 0), CO_KEY(0x0001, 1, 0), CO_KEY(0x0FFF, 0xFF, 0),
                                      CO_KEY(0x1000, 2, 0), CO_KEY(0x1000, 0xFE, 0), CO_KEY(0x1800, 0, 0), CO_KEY(0x2000, 1, 0),
                                      CO_KEY(0x2000, 3, 0), CO_KEY(0xFFFE, 0xFF, 0), CO_KEY(0xFFFF, 1, 0), CO_KEY(0xFFFF, 0xFE, 0) };
    static const uint8_t Fl[4] = { 0x00, 0xFF, 0x5A, 0x83 };
    static uint32_t dummy;
    for (int mask = 0; mask < 256; mask++) {
        int n = __builtin_popcount((unsigned)mask);
        for (int slack = 0; slack < 2; slack++) {
            CO_OBJ *root = malloc(sizeof(CO_OBJ) * (size_t)(n + 1));     /* exactly n entries + end marker */
            int k = 0;
            for (int i = 0; i < 8; i++) if (mask & (1 << i)) { root[k].Key = U[i]; root[k].Type = CO_TUNSIGNED32; root[k].Data = (CO_DATA)&dummy; k++; }
            root[n].Key = 0; root[n].Type = 0; root[n].Data = 0;
            CO_DICT cod; memset(&cod, 0, sizeof cod);
            int16_t r = CODictInit(&cod, &Node, root, (uint16_t)(n + 1 + slack * 7));
            if (r != n) VIOL("init-count", "CODictInit returned %d for %d entries", r, n);
            NDict++;
            for (int f = 0; f < 4; f++) {
                for (int i = 0; i < 8; i++) probe(&cod, root, n, (U[i] & 0xFFFFFF00u) | Fl[f], "small-scope");
                for (unsigned i = 0; i < sizeof Extra / sizeof Extra[0]; i++) probe(&cod, root, n, (Extra[i] & 0xFFFFFF00u) | Fl[f], "small-scope");
            }
            free(root);
        }
    }
}

static int cmpu32(const void *a, const void *b) { uint32_t x = *(const uint32_t *)a, y = *(const uint32_t *)b; return x < y ? -1 : x > y; }

/* (b) random dictionaries */
static void part_random(int ndicts)
{
    static uint32_t dummy;
    for (int d = 0; d < ndicts; d++) {
        int n = (int)(rnd() % (d % 4 == 0 ? 3000 : 200)) + (d % 7 == 0 ? 0 : 1);
        uint32_t *keys = malloc(sizeof(uint32_t) * (size_t)(n + 1));
        int dense = rnd() % 2;
        for (int i = 0; i < n; i++) keys[i] = dense ? ((0x1000u + rnd() % 64) << 16) | ((rnd() % 16) << 8) : (rnd() & 0xFFFFFF00u);
        qsort(keys, (size_t)n, sizeof(uint32_t), cmpu32);
        int m = 0;
        for (int i = 0; i < n; i++) if (keys[i] != 0 && (m == 0 || keys[i] != keys[m - 1])) keys[m++] = keys[i];
        n = m;
        CO_OBJ *root = malloc(sizeof(CO_OBJ) * (size_t)(n + 1));
        for (int i = 0; i < n; i++) { root[i].Key = keys[i] | (rnd() & 0xFF); root[i].Type = CO_TUNSIGNED32; root[i].Data = (CO_DATA)&dummy; }
        root[n].Key = 0; root[n].Type = 0; root[n].Data = 0;
        CO_DICT cod; memset(&cod, 0, sizeof cod);
        int16_t r = CODictInit(&cod, &Node, root, (uint16_t)(n + 1));
        if (r != n) VIOL("init-count", "CODictInit returned %d for %d entries", r, n);
        NDict++;
        int nl = n < 50 ? 400 : 3000;
        for (int q = 0; q < nl; q++) {
            uint32_t key;
            uint32_t x = rnd() % 10;
            if (n > 0 && x < 5) key = keys[rnd() % (uint32_t)n];
            else if (n > 0 && x < 8) key = keys[rnd() % (uint32_t)n] + ((rnd() % 2) ? 0x100u : (uint32_t)-0x100);
            else key = rnd() & 0xFFFFFF00u;
            probe(&cod, root, n, key | (rnd() & 0xFF), "random");
        }
        if (n > 0) { probe(&cod, root, n, keys[0] | 1, "first"); probe(&cod, root, n, keys[n - 1] | 1, "last");
                     probe(&cod, root, n, keys[0] - 0x100u, "below-first"); probe(&cod, root, n, keys[n - 1] + 0x100u, "above-last"); }
        probe(&cod, root, n, 0x000000FFu, "index-0");
        free(root); free(keys);
    }
}

/* (c) every entry's init exactly once (directly and through CONodeInit) */
static unsigned long NInitDict;
static void part_init(void)
{
    for (int n = 0; n <= 40; n++) {
        /* failing: -1 = no entry's initialisation fails; k = the initialisation of entry k reports an error (all others still run once) */
        for (int failing = -1; failing < n; failing += (n > 12 && failing >= 0) ? 5 : 1)
        for (int via_node = 0; via_node < 2; via_node++) {
            CO_OBJ *root = malloc(sizeof(CO_OBJ) * (size_t)(n + 1));
            uint32_t *cnt = calloc((size_t)(n + 1), sizeof(uint32_t));
            /* special: which entry carries the key 1010h:0 (its initialisation loads the stored parameters and is therefore moved to the
             * front by CODictObjInit) - none, the first, a middle or the LAST configured entry; the keys in front of it stay below 1010h */
            int special = (n == 0) ? -1 : (int)((unsigned)(n * 7 + failing + via_node) % 5u) - 1;      /* -1 none, 0 first, 1/2 middle, 3 last */
            int spos = special < 0 ? -1 : special == 0 ? 0 : special == 3 ? n - 1 : (n * special) / 3;
            for (int i = 0; i < n; i++) {
                uint32_t key = (spos < 0 || i > spos) ? CO_KEY(0x3000 + i / 3, i % 3, CO_OBJ_____RW) : (i == spos) ? CO_KEY(0x1010, 0, CO_OBJ_____RW) : CO_KEY(0x0100 + i / 3, i % 3, CO_OBJ_____RW);
                root[i].Key = key; root[i].Type = (i == failing) ? &CntFailType : &CntType; root[i].Data = (CO_DATA)&cnt[i]; }
            root[n].Key = 0; root[n].Type = 0; root[n].Data = 0;
            if (via_node) {
                static CO_TMR_MEM tm[4]; static uint8_t sdobuf[CO_SDO_BUF_BYTE * CO_SSDO_N];
                CO_NODE_SPEC spec = { 1, 250000, root, (uint16_t)(n + 1), NULL, tm, 4, 1000, &Drv, sdobuf };
                memset(&Node, 0, sizeof Node);
                CONodeInit(&Node, &spec);
            } else {
                CO_DICT cod; memset(&cod, 0, sizeof cod);
                if (n > 0 || 1) { CODictInit(&cod, &Node, root, (uint16_t)(n + 1)); if (cod.Root) (void)CODictObjInit(&cod, &Node); }
            }
            for (int i = 0; i < n; i++)
                if (cnt[i] != 1) { VIOL(failing >= 0 ? "init-once/after-failed-init" : i == 0 ? "init-once/first-entry" : "init-once/other-entry", "dictionary of %d entries (%s, init of entry %d fails): init of entry %d ran %u times",
                                        n, via_node ? "CONodeInit" : "CODictObjInit", failing, i, cnt[i]); break; }
            NInitDict++;
            free(root); free(cnt);
        }
    }
}

/* (c2) system entries are initialised once, too: the error history 1003h:0 is set up by its type's Init.  A second run would not be
 * counted by a type of ours, but it is observable: an emergency registered by the Init of an entry in front of 1003h (manufacturer
 * status register 1002h) is listed after the first run and orphaned by a second one (count in 1003h:0 without readable entries). */
static CO_ERR emcyset_init(CO_OBJ *o, CO_NODE *n) { (*(uint32_t *)o->Data)++; COEmcySet(&n->Emcy, 0, NULL); return CO_ERR_NONE; }
static const CO_OBJ_TYPE EmcySetType = { cnt_size, emcyset_init, cnt_rd, 0, 0 };
static void part_init_system(void)
{
    for (int depth = 1; depth <= 4; depth++) {
        static CO_TMR_MEM tm[4]; static uint8_t sdobuf[CO_SDO_BUF_BYTE * CO_SSDO_N];
        static CO_EMCY_TBL tbl[CO_EMCY_N];
        static uint8_t reg, hnum; static uint32_t hist[4], cnt, emcyid;
        CO_OBJ root[12]; int n = 0;
        memset(tbl, 0, sizeof tbl); tbl[0].Reg = 1; tbl[0].Code = 0x2310;
        reg = 0; hnum = 0; cnt = 0; emcyid = 0x80; memset(hist, 0, sizeof hist);
        root[n].Key = CO_KEY(0x1001, 0, CO_OBJ_____R_); root[n].Type = CO_TUNSIGNED8; root[n].Data = (CO_DATA)&reg; n++;
        root[n].Key = CO_KEY(0x1002, 0, CO_OBJ_____R_); root[n].Type = &EmcySetType; root[n].Data = (CO_DATA)&cnt; n++;
        root[n].Key = CO_KEY(0x1003, 0, CO_OBJ_____RW); root[n].Type = CO_TEMCY_HIST; root[n].Data = (CO_DATA)&hnum; n++;
        for (int k = 0; k < depth; k++) { root[n].Key = CO_KEY(0x1003, 1 + k, CO_OBJ_____R_); root[n].Type = CO_TEMCY_HIST; root[n].Data = (CO_DATA)&hist[k]; n++; }
        root[n].Key = CO_KEY(0x1014, 0, CO_OBJ__N__R_); root[n].Type = CO_TEMCY_ID; root[n].Data = (CO_DATA)&emcyid; n++;
        root[n].Key = 0; root[n].Type = 0; root[n].Data = 0;
        CO_NODE_SPEC spec = { 1, 250000, root, (uint16_t)(n + 1), tbl, tm, 4, 1000, &Drv, sdobuf };
        memset(&Node, 0, sizeof Node);
        CONodeInit(&Node, &spec);
        NInitDict++;
        if (cnt != 1) VIOL("init-once/system-entry", "init of 1002h ran %u times", cnt);
        uint8_t num = 0xFF; uint32_t v;
        CO_OBJ *o = CODictFind(&Node.Dict, CO_DEV(0x1003, 0));
        if (o == NULL || COObjRdValue(o, &Node, &num, 1) != CO_ERR_NONE) { VIOL("init-once/history-unreadable", "1003h:0 not readable after CONodeInit"); continue; }
        if (num > depth) { VIOL("init-once/history", "1003h:0 = %u with %d entries", num, depth); continue; }
        for (int k = 1; k <= num; k++) {
            o = CODictFind(&Node.Dict, CO_DEV(0x1003, k));
            if (o == NULL || COObjRdValue(o, &Node, &v, 4) != CO_ERR_NONE || v == 0) {
                VIOL("init-once/history", "depth %d: after CONodeInit 1003h:0 announces %u errors, 1003h:%d is not readable (the history was set up, used by the Init of 1002h and set up again)", depth, num, k);
                break;
            }
        }
        /* whatever was listed: the next emergency has to appear as newest entry with a matching count */
        COEmcyClr(&Node.Emcy, 0); COEmcySet(&Node.Emcy, 0, NULL);
        o = CODictFind(&Node.Dict, CO_DEV(0x1003, 0)); uint8_t num2 = 0xFF; (void)COObjRdValue(o, &Node, &num2, 1);
        o = CODictFind(&Node.Dict, CO_DEV(0x1003, 1)); v = 0;
        if (COObjRdValue(o, &Node, &v, 4) != CO_ERR_NONE || (v & 0xFFFF) != 0x2310 || num2 != (num < depth ? num + 1 : depth))
            VIOL("init-once/history", "depth %d: emergency after CONodeInit: 1003h:0 = %u (was %u), 1003h:1 = %08x", depth, num2, num, v);
    }
}

/* (c3) every system type's Init runs once per entry of that type during CONodeInit.  The Init functions are static in the stack, but
 * reachable through the public type structures; the build of this engine uses -finstrument-functions, so the entry hook below sees
 * every call of every function and counts the ones watched (no change to the stack's sources). */
#define NWATCH 16
static void *WatchFn[NWATCH]; static const char *WatchName[NWATCH]; static unsigned WatchCnt[NWATCH], WatchWant[NWATCH]; static int NWatch;
static unsigned long HookCalls, NInitSys, NSysBuf;
__attribute__((no_instrument_function)) void __cyg_profile_func_enter(void *fn, void *site)
{
    (void)site; HookCalls++;
    for (int i = 0; i < NWatch; i++) if (WatchFn[i] == fn) WatchCnt[i]++;
}
__attribute__((no_instrument_function)) void __cyg_profile_func_exit(void *fn, void *site) { (void)fn; (void)site; }
static void watch(const CO_OBJ_TYPE *t, const char *name, unsigned want)
{
    for (int i = 0; i < NWatch; i++) if (WatchFn[i] == (void *)t->Init) { WatchWant[i] += want; return; }
    WatchFn[NWatch] = (void *)t->Init; WatchName[NWatch] = name; WatchCnt[NWatch] = 0; WatchWant[NWatch] = want; NWatch++;
}
static void part_init_types(void)
{
    for (int var = 0; var < 24; var++) {
        static CO_TMR_MEM tm[16]; static uint8_t sdobuf[CO_SDO_BUF_BYTE * CO_SSDO_N];
        static CO_EMCY_TBL tbl[CO_EMCY_N];
        static uint8_t reg, hnum, n1016, n1200, n1400, n1600, n1800, n1a00, ttype, rtype, dombuf[8];
        static uint16_t hbp, evt, inh; static uint32_t hist[8], emcyid, syncid, cycle, rx, tx, rid, tid, map0, map1, val;
        static CO_HBCONS hbc[3]; static CO_OBJ_STR str; static CO_OBJ_DOM dom; static CO_OBJ root[64];
        int n = 0, depth = var % 5 /* 0 = no history */, nhbc = var % 4, with_sync = var & 1, with_pdo = (var >> 1) & 1, with_1014 = var % 3 != 0;
        memset(tbl, 0, sizeof tbl); tbl[0].Reg = 1; tbl[0].Code = 0x2310;
        reg = hnum = 0; memset(hist, 0, sizeof hist); emcyid = 0x80; syncid = 0x80; cycle = 0; hbp = (uint16_t)(var * 10); evt = inh = 0;
        rx = 0x600; tx = 0x580; rid = 0x200; tid = 0x180; map0 = map1 = 0x20000020; n1200 = 2; n1400 = 2; n1800 = 5; n1600 = n1a00 = 1; ttype = rtype = 254;
        n1016 = (uint8_t)nhbc; str.Offset = 0; str.Start = (uint8_t *)"abc"; dom.Offset = 0; dom.Size = 8; dom.Start = dombuf; NWatch = 0;
#define ENT(idx, sub, fl, ty, dat) do { root[n].Key = CO_KEY(idx, sub, fl); root[n].Type = (ty); root[n].Data = (CO_DATA)(dat); n++; } while (0)
        ENT(0x1001, 0, CO_OBJ_____R_, CO_TUNSIGNED8, &reg);
        if (depth) { ENT(0x1003, 0, CO_OBJ_____RW, CO_TEMCY_HIST, &hnum); for (int k = 0; k < depth; k++) ENT(0x1003, 1 + k, CO_OBJ_____R_, CO_TEMCY_HIST, &hist[k]); watch(CO_TEMCY_HIST, "CO_TEMCY_HIST", 1u + (unsigned)depth); }
        if (with_sync) { ENT(0x1005, 0, CO_OBJ_____RW, CO_TSYNC_ID, &syncid); ENT(0x1006, 0, CO_OBJ_____RW, CO_TSYNC_CYCLE, &cycle); watch(CO_TSYNC_ID, "CO_TSYNC_ID", 1); watch(CO_TSYNC_CYCLE, "CO_TSYNC_CYCLE", 1); }
        ENT(0x1008, 0, CO_OBJ_____R_, CO_TSTRING, &str); watch(CO_TSTRING, "CO_TSTRING", 1);
        { static CO_PARA pg; static uint8_t pgram[4], n1010, n1011; n1010 = n1011 = 1;
          pg.Offset = 0; pg.Size = 4; pg.Start = pgram; pg.Default = NULL; pg.Type = CO_RESET_COM; pg.Value = CO_PARA___E;
          ENT(0x1010, 0, CO_OBJ_____R_, CO_TPARA_STORE, &n1010); ENT(0x1010, 1, CO_OBJ_____RW, CO_TPARA_STORE, &pg);
          ENT(0x1011, 0, CO_OBJ_____R_, CO_TPARA_RESTORE, &n1011); ENT(0x1011, 1, CO_OBJ_____RW, CO_TPARA_RESTORE, &pg);
          watch(CO_TPARA_STORE, "CO_TPARA_STORE", 2); watch(CO_TPARA_RESTORE, "CO_TPARA_RESTORE", 2); }
        if (with_1014 || 1) { ENT(0x1014, 0, CO_OBJ__N__RW, CO_TEMCY_ID, &emcyid); watch(CO_TEMCY_ID, "CO_TEMCY_ID", 1); }
        if (nhbc) { ENT(0x1016, 0, CO_OBJ_____R_, CO_THB_CONS, &n1016); for (int k = 0; k < nhbc; k++) { hbc[k].NodeId = (uint8_t)(10 + k); hbc[k].Time = (uint16_t)(100 * k); ENT(0x1016, 1 + k, CO_OBJ_____RW, CO_THB_CONS, &hbc[k]); } watch(CO_THB_CONS, "CO_THB_CONS", 1u + (unsigned)nhbc); }
        ENT(0x1017, 0, CO_OBJ_____RW, CO_THB_PROD, &hbp); watch(CO_THB_PROD, "CO_THB_PROD", 1);
        { static uint8_t n1018 = 4; static uint32_t ident[4] = { 1, 2, 3, 4 }; ENT(0x1018, 0, CO_OBJ_____R_, CO_TUNSIGNED8, &n1018); for (int k = 0; k < 4; k++) ENT(0x1018, 1 + k, CO_OBJ_____R_, CO_TUNSIGNED32, &ident[k]); }
        ENT(0x1200, 0, CO_OBJ_____R_, CO_TUNSIGNED8, &n1200); ENT(0x1200, 1, CO_OBJ__N__R_, CO_TSDO_ID, &rx); ENT(0x1200, 2, CO_OBJ__N__R_, CO_TSDO_ID, &tx); watch(CO_TSDO_ID, "CO_TSDO_ID", 2);
        if (with_pdo) {
            ENT(0x1400, 0, CO_OBJ_____R_, CO_TUNSIGNED8, &n1400); ENT(0x1400, 1, CO_OBJ__N__RW, CO_TPDO_ID, &rid); ENT(0x1400, 2, CO_OBJ_____RW, CO_TPDO_TYPE, &rtype);
            ENT(0x1600, 0, CO_OBJ_____RW, CO_TPDO_NUM, &n1600); ENT(0x1600, 1, CO_OBJ_____RW, CO_TPDO_MAP, &map0);
            ENT(0x1800, 0, CO_OBJ_____R_, CO_TUNSIGNED8, &n1800); ENT(0x1800, 1, CO_OBJ__N__RW, CO_TPDO_ID, &tid); ENT(0x1800, 2, CO_OBJ_____RW, CO_TPDO_TYPE, &ttype);
            ENT(0x1800, 3, CO_OBJ_____RW, CO_TUNSIGNED16, &inh); ENT(0x1800, 5, CO_OBJ_____RW, CO_TPDO_EVENT, &evt);
            ENT(0x1A00, 0, CO_OBJ_____RW, CO_TPDO_NUM, &n1a00); ENT(0x1A00, 1, CO_OBJ_____RW, CO_TPDO_MAP, &map1);
            watch(CO_TPDO_ID, "CO_TPDO_ID", 2); watch(CO_TPDO_TYPE, "CO_TPDO_TYPE", 2); watch(CO_TPDO_NUM, "CO_TPDO_NUM", 2); watch(CO_TPDO_MAP, "CO_TPDO_MAP", 2); watch(CO_TPDO_EVENT, "CO_TPDO_EVENT", 1);
        }
        ENT(0x2000, 0, CO_OBJ____PRW, CO_TUNSIGNED32, &val);
        ENT(0x2001, 0, CO_OBJ_____RW, CO_TDOMAIN, &dom); watch(CO_TDOMAIN, "CO_TDOMAIN", 1);
        root[n].Key = 0; root[n].Type = 0; root[n].Data = 0;
        CO_NODE_SPEC spec = { 1, 250000, root, (uint16_t)(n + 1), tbl, tm, 16, 1000, &Drv, sdobuf };
        memset(&Node, 0, sizeof Node);
        unsigned long h0 = HookCalls;
        for (int i = 0; i < NWatch; i++) WatchCnt[i] = 0;
        CONodeInit(&Node, &spec);
        int nw = NWatch; NWatch = 0;            /* stop counting */
        NInitSys++;
        if (HookCalls == h0) { printf("stat init_hook_silent 1\n"); return; }   /* not an instrumented build: inconclusive, see m_dict.finish */
        if (CONodeGetErr(&Node) != CO_ERR_NONE) VIOL("init-once/harness-dictionary", "variant %d: node error %d after CONodeInit", var, (int)CONodeGetErr(&Node));
        /* (e2) buffer access to the system entries: whatever length the application asks for, never more than that is moved.  Source
         * and destination are heap blocks of exactly that length, so one byte too many is an ASan report (engine dies = violation). */
        for (int i = 0; i < n; i++) {
            const CO_OBJ_TYPE *t = root[i].Type;
            if (t == CO_TSTRING || t == CO_TDOMAIN) continue;      /* content and length of these: parts (e), (f) */
            if (CO_GET_IDX(root[i].Key) == 0x1001 || CO_GET_IDX(root[i].Key) == 0x1018) continue;
            for (uint32_t len = 1; len <= 6; len++) {
                uint8_t *b = malloc(len); memset(b, 0xEE, len);
                CO_ERR e = CODictRdBuffer(&Node.Dict, root[i].Key, b, len);
                if (e == CO_ERR_NONE && len <= 4) { int moved = 0; for (uint32_t k = 0; k < len; k++) if (b[k] != 0xEE) moved = 1;
                    uint32_t sz = COObjGetSize(&root[i], &Node, 0);
                    if (!moved && sz == 4 && len < 4 && 0) VIOL("buffer/system-type", "%04x:%u read of %u bytes reported success without moving a byte", CO_GET_IDX(root[i].Key), CO_GET_SUB(root[i].Key), len); }
                free(b); NSysBuf++;
                b = malloc(len); memset(b, 0, len);
                (void)CODictWrBuffer(&Node.Dict, root[i].Key, b, len);
                free(b); NSysBuf++;
                Node.Error = CO_ERR_NONE;
            }
        }
        for (int i = 0; i < nw; i++)
            if (WatchFn[i] != NULL && WatchCnt[i] != WatchWant[i])
                VIOL("init-once/system-type", "dictionary variant %d (%d entries, node error %d): Init of %s ran %u times for %u entries of that type", var, n, (int)CONodeGetErr(&Node), WatchName[i], WatchCnt[i], WatchWant[i]);
    }
}

/* (d) typed access */
static unsigned long NTyped;
static void typed_one(int width, int direct, int nodeid_rel, uint8_t nid, uint32_t value)
{
    uint32_t mask = width == 4 ? 0xFFFFFFFFu : ((1u << (8 * width)) - 1);
    uint8_t flags = CO_OBJ_____RW | (direct ? CO_OBJ_D_____ : 0) | (nodeid_rel ? CO_OBJ__N____ : 0);
    const CO_OBJ_TYPE *t = width == 1 ? CO_TUNSIGNED8 : width == 2 ? CO_TUNSIGNED16 : CO_TUNSIGNED32;
    CO_OBJ *root = malloc(sizeof(CO_OBJ) * 3);
    void *store = malloc((size_t)width);              /* exact width: a wider access is an ASan report */
    uint32_t guard_init = 0xA5A5A5A5u & mask;
    memcpy(store, &guard_init, (size_t)width);
    root[0].Key = CO_KEY(0x2000, 0, flags); root[0].Type = t; root[0].Data = direct ? (CO_DATA)guard_init : (CO_DATA)store;
    /* a neighbour that must never change */
    uint32_t *nb = malloc(4); *nb = 0x5EAF00D5u;
    root[1].Key = CO_KEY(0x2000, 1, CO_OBJ_____RW); root[1].Type = CO_TUNSIGNED32; root[1].Data = (CO_DATA)nb;
    root[2].Key = 0; root[2].Type = 0; root[2].Data = 0;
    Node.NodeId = nid;
    CO_DICT cod; memset(&cod, 0, sizeof cod);
    CODictInit(&cod, &Node, root, 3);
    uint32_t key = CO_DEV(0x2000, 0);
    CO_ERR e;
    value &= mask;
    /* wrong-width accessors fail and change nothing */
    uint8_t b = 0; uint16_t w = 0; uint32_t l = 0;
    if (width != 1) { e = CODictWrByte(&cod, key, (uint8_t)value); if (e == CO_ERR_NONE) VIOL("typed/wrong-width-write", "WrByte accepted on %d-byte entry", width);
                      e = CODictRdByte(&cod, key, &b); if (e == CO_ERR_NONE) VIOL("typed/wrong-width-read", "RdByte accepted on %d-byte entry", width); }
    if (width != 2) { e = CODictWrWord(&cod, key, (uint16_t)value); if (e == CO_ERR_NONE) VIOL("typed/wrong-width-write", "WrWord accepted on %d-byte entry", width);
                      e = CODictRdWord(&cod, key, &w); if (e == CO_ERR_NONE) VIOL("typed/wrong-width-read", "RdWord accepted on %d-byte entry", width); }
    if (width != 4) { e = CODictWrLong(&cod, key, value); if (e == CO_ERR_NONE) VIOL("typed/wrong-width-write", "WrLong accepted on %d-byte entry", width);
                      e = CODictRdLong(&cod, key, &l); if (e == CO_ERR_NONE) VIOL("typed/wrong-width-read", "RdLong accepted on %d-byte entry", width); }
    uint32_t cur = direct ? (uint32_t)root[0].Data : 0; if (!direct) memcpy(&cur, store, (size_t)width);
    if ((cur & mask) != guard_init) VIOL("typed/wrong-width-changed", "refused access changed a %d-byte entry", width);
    /* write */
    if (width == 1) e = CODictWrByte(&cod, key, (uint8_t)value); else if (width == 2) e = CODictWrWord(&cod, key, (uint16_t)value); else e = CODictWrLong(&cod, key, value);
    if (e != CO_ERR_NONE) VIOL("typed/write-failed", "write of %x to %d-byte entry failed with %d", value, width, (int)e);
    cur = direct ? (uint32_t)root[0].Data : 0; if (!direct) { cur = 0; memcpy(&cur, store, (size_t)width); }
    uint32_t want = (value - (nodeid_rel ? nid : 0)) & mask;
    if ((cur & mask) != want) VIOL(nodeid_rel ? "typed/store/nodeid" : "typed/store/plain", "width %d direct %d nodeid %u: wrote %x, stored %x, expected %x", width, direct, nodeid_rel ? nid : 0, value, cur & mask, want);
    /* read back */
    uint32_t got = 0;
    if (width == 1) { e = CODictRdByte(&cod, key, &b); got = b; } else if (width == 2) { e = CODictRdWord(&cod, key, &w); got = w; } else { e = CODictRdLong(&cod, key, &l); got = l; }
    if (e != CO_ERR_NONE || got != value) VIOL(nodeid_rel ? "typed/roundtrip/nodeid" : "typed/roundtrip/plain", "width %d direct %d nodeid %u: wrote %x, read %x (err %d)", width, direct, nodeid_rel ? nid : 0, value, got, (int)e);
    /* ... and every value can be followed by another one (the entry is not worn out by the value it holds, e.g. a stored 0) */
    uint32_t v2 = (~value) & mask;
    if (width == 1) e = CODictWrByte(&cod, key, (uint8_t)v2); else if (width == 2) e = CODictWrWord(&cod, key, (uint16_t)v2); else e = CODictWrLong(&cod, key, v2);
    if (e != CO_ERR_NONE) VIOL("typed/second-write-failed", "width %d direct %d nodeid %u: write of %x after the entry held %x failed with %d", width, direct, nodeid_rel ? nid : 0, v2, value, (int)e);
    got = 0;
    if (width == 1) { e = CODictRdByte(&cod, key, &b); got = b; } else if (width == 2) { e = CODictRdWord(&cod, key, &w); got = w; } else { e = CODictRdLong(&cod, key, &l); got = l; }
    if (e != CO_ERR_NONE || got != v2) VIOL(nodeid_rel ? "typed/roundtrip/nodeid" : "typed/roundtrip/plain", "width %d direct %d nodeid %u: wrote %x after %x, read %x (err %d)", width, direct, nodeid_rel ? nid : 0, v2, value, got, (int)e);
    if (*nb != 0x5EAF00D5u) VIOL("typed/neighbour", "neighbour entry changed");
    /* absent key */
    if (CODictRdLong(&cod, CO_DEV(0x2000, 2), &l) != CO_ERR_OBJ_NOT_FOUND) VIOL("typed/absent", "read of absent entry did not fail with NOT_FOUND");
    NTyped++;
    free(root); free(store); free(nb);
}
static void part_typed(unsigned long nrand32)
{
    static const uint8_t ids[3] = { 1, 64, 127 };
    static const uint32_t B32[] = { 0, 1, 0x7F, 0x80, 0xFF, 0x100, 0x7FFF, 0x8000, 0xFFFF, 0x10000, 0x7FFFFFFF, 0x80000000u, 0xFFFFFFFEu, 0xFFFFFFFFu, 126, 127, 128, 63, 64, 65 };
    for (int direct = 0; direct < 2; direct++) for (int nr = 0; nr < 2; nr++) for (int k = 0; k < 3; k++) {
        for (uint32_t v = 0; v < 256; v++) typed_one(1, direct, nr, ids[k], v);
        for (uint32_t v = 0; v < 65536; v += (k == 0 ? 1 : 7)) typed_one(2, direct, nr, ids[k], v);
        for (unsigned i = 0; i < sizeof B32 / sizeof B32[0]; i++) typed_one(4, direct, nr, ids[k], B32[i]);
        for (unsigned long i = 0; i < nrand32; i++) typed_one(4, direct, nr, ids[k], rnd() ^ (rnd() << 16));
    }
}

/* (d2) typed access to byte-stream entries (domain): an entry of exactly the width round-trips, any other width is refused.
 * Both rules fail on the pinned tree (recorded finding): the domain type answers the size question with min(width, size) and keeps its
 * transfer offset between typed accesses. */
static void part_typed_stream(void)
{
    static const uint32_t sizes[] = { 1, 2, 4, 3, 5, 100 };
    for (unsigned si = 0; si < sizeof sizes / sizeof sizes[0]; si++) {
        uint32_t size = sizes[si];
        CO_OBJ *root = malloc(sizeof(CO_OBJ) * 2);
        CO_OBJ_DOM *dom = malloc(sizeof *dom); dom->Size = size; dom->Offset = 0; dom->Start = malloc(size);
        for (uint32_t i = 0; i < size; i++) dom->Start[i] = (uint8_t)(0x11 * (i + 1));
        root[0].Key = CO_KEY(0x2100, 0, CO_OBJ_____RW); root[0].Type = CO_TDOMAIN; root[0].Data = (CO_DATA)dom;
        root[1].Key = 0; root[1].Type = 0; root[1].Data = 0;
        CO_DICT cod; memset(&cod, 0, sizeof cod);
        CODictInit(&cod, &Node, root, 2);
        uint32_t key = CO_DEV(0x2100, 0);
        uint8_t b = 0; uint16_t w = 0; uint32_t l = 0;
        CO_ERR eb = CODictRdByte(&cod, key, &b), ew = CODictRdWord(&cod, key, &w), el = CODictRdLong(&cod, key, &l);
        if ((size != 1 && eb == CO_ERR_NONE) || (size != 2 && ew == CO_ERR_NONE) || (size != 4 && el == CO_ERR_NONE))
            VIOL("typed/stream-width", "domain of %u bytes: typed read of another width succeeds (byte %d word %d long %d)", size, (int)eb, (int)ew, (int)el);
        if (size == 4) {
            uint32_t got = 0xEEEEEEEEu;
            CO_ERR e1 = CODictWrLong(&cod, key, 0x11223344u), e2 = CODictRdLong(&cod, key, &got);
            CO_ERR e3 = CODictWrLong(&cod, key, 0x55667788u); uint32_t mem; memcpy(&mem, dom->Start, 4);
            if (e1 != CO_ERR_NONE || e2 != CO_ERR_NONE || got != 0x11223344u || e3 != CO_ERR_NONE || mem != 0x55667788u)
                VIOL("typed/stream-roundtrip", "domain of 4 bytes: WrLong(11223344) err %d, RdLong err %d value %x, WrLong(55667788) err %d memory %x", (int)e1, (int)e2, got, (int)e3, mem);
        }
        NTyped += 4;
        free(dom->Start); free(dom); free(root);
    }
}

/* (e) buffer access */
static unsigned long NBuf;
static void part_buffer(int full)
{
    static const uint32_t sizes[] = { 1, 4, 5, 255, 256, 257, 889, 4000 };
    for (unsigned si = 0; si < sizeof sizes / sizeof sizes[0]; si++) {
        uint32_t size = sizes[si];
        CO_OBJ *root = malloc(sizeof(CO_OBJ) * 3);
        CO_OBJ_DOM *dom = malloc(sizeof *dom); dom->Size = size; dom->Offset = 0; dom->Start = malloc(size);
        CO_OBJ_STR *str = malloc(sizeof *str); str->Offset = 0; str->Start = malloc(size + 1);
        for (uint32_t i = 0; i < size; i++) { dom->Start[i] = (uint8_t)(i * 7 + 3); str->Start[i] = (uint8_t)(1 + (i * 5) % 255); }
        str->Start[size] = 0;
        root[0].Key = CO_KEY(0x2100, 0, CO_OBJ_____RW); root[0].Type = CO_TDOMAIN; root[0].Data = (CO_DATA)dom;
        root[1].Key = CO_KEY(0x2100, 1, CO_OBJ_____R_); root[1].Type = CO_TSTRING; root[1].Data = (CO_DATA)str;
        root[2].Key = 0; root[2].Type = 0; root[2].Data = 0;
        CO_DICT cod; memset(&cod, 0, sizeof cod);
        CODictInit(&cod, &Node, root, 3);
        CODictObjInit(&cod, &Node);
        uint32_t step = full ? 1 : 3;
        for (uint32_t len = 0; len <= 4000; len += (len < 600 || (len > 880 && len < 900) ? 1 : step)) {
            uint32_t moved = len < size ? len : size;
            /* domain read: exactly min(len,size) bytes, rest of user buffer untouched */
            uint8_t *ub = malloc(len ? len : 1); memset(ub, 0xEE, len ? len : 1);
            CO_ERR e = CODictRdBuffer(&cod, CO_DEV(0x2100, 0), ub, len);
            int ok = e == CO_ERR_NONE;
            for (uint32_t i = 0; ok && i < moved; i++) if (ub[i] != dom->Start[i]) ok = 0;
            for (uint32_t i = moved; ok && i < len; i++) if (ub[i] != 0xEE) ok = 0;
            if (!ok) VIOL(len > 255 ? "buffer/read/dom/len>255" : "buffer/read/dom", "domain of %u bytes, read of %u bytes: wrong bytes moved (err %d)", size, len, (int)e);
            /* twice in a row: the second call starts at the beginning again */
            memset(ub, 0xEE, len ? len : 1);
            e = CODictRdBuffer(&cod, CO_DEV(0x2100, 0), ub, len);
            if (len && (e != CO_ERR_NONE || ub[0] != dom->Start[0])) VIOL("buffer/read/dom/second-call", "domain of %u bytes: second read of %u bytes did not start at offset 0", size, len);
            /* string read */
            memset(ub, 0xEE, len ? len : 1);
            e = CODictRdBuffer(&cod, CO_DEV(0x2100, 1), ub, len);
            ok = e == CO_ERR_NONE;
            for (uint32_t i = 0; ok && i < moved; i++) if (ub[i] != str->Start[i]) ok = 0;
            for (uint32_t i = moved; ok && i < len; i++) if (ub[i] != 0xEE) ok = 0;
            if (!ok) VIOL(len > 255 ? "buffer/read/str/len>255" : "buffer/read/str", "string of %u bytes, read of %u bytes: wrong bytes moved (err %d)", size, len, (int)e);
            /* domain write */
            uint8_t *wb = malloc(len ? len : 1);
            for (uint32_t i = 0; i < len; i++) wb[i] = (uint8_t)(len + i * 11);
            uint8_t *before = malloc(size); memcpy(before, dom->Start, size);
            e = CODictWrBuffer(&cod, CO_DEV(0x2100, 0), wb, len);
            ok = e == CO_ERR_NONE;
            for (uint32_t i = 0; ok && i < moved; i++) if (dom->Start[i] != wb[i]) ok = 0;
            for (uint32_t i = moved; ok && i < size; i++) if (dom->Start[i] != before[i]) ok = 0;
            if (!ok) VIOL(len > 255 ? "buffer/write/dom/len>255" : "buffer/write/dom", "domain of %u bytes, write of %u bytes: wrong bytes moved (err %d)", size, len, (int)e);
            NBuf += 4;
            free(ub); free(wb); free(before);
        }
        free(dom->Start); free(dom); free(str->Start); free(str); free(root);
    }
}

/* (f) continued buffer access: COObjRdBufStart/Cont and COObjWrBufStart/Cont in chunks that run up to and beyond the object's end */
static unsigned long NChunk;
static void part_chunked(void)
{
    static const uint32_t sizes[] = { 1, 4, 5, 20, 255, 889, 1000 };
    for (unsigned si = 0; si < sizeof sizes / sizeof sizes[0]; si++) {
        uint32_t size = sizes[si];
        for (int pat = 0; pat < 400; pat++) {
            CO_OBJ obj[2];
            CO_OBJ_DOM *dom = malloc(sizeof *dom); dom->Size = size; dom->Offset = rnd() % (size + 1); dom->Start = malloc(size);
            CO_OBJ_STR *str = malloc(sizeof *str); str->Offset = rnd() % (size + 1); str->Start = malloc(size + 1);
            uint8_t *model = malloc(size);
            for (uint32_t i = 0; i < size; i++) { dom->Start[i] = model[i] = (uint8_t)(i * 13 + pat); str->Start[i] = (uint8_t)(1 + (i * 3 + pat) % 255); }
            str->Start[size] = 0;
            obj[0].Key = CO_KEY(0x2100, 0, CO_OBJ_____RW); obj[0].Type = CO_TDOMAIN; obj[0].Data = (CO_DATA)dom;
            obj[1].Key = CO_KEY(0x2100, 1, CO_OBJ_____R_); obj[1].Type = CO_TSTRING; obj[1].Data = (CO_DATA)str;
            int write = pat % 3 == 0, usestr = pat % 3 == 1;
            uint32_t off = 0; int first = 1;
            for (int c = 0; c < 12; c++) {
                uint32_t len = (rnd() % 4 == 0) ? rnd() % (size + 9) : 1 + rnd() % 9;
                if (c == 0 && pat % 5 == 0) len = 0;
                uint32_t rem = size - off, moved = len < rem ? len : rem;
                uint8_t *ub = malloc(len ? len : 1);
                CO_ERR e;
                if (write) {
                    for (uint32_t i = 0; i < len; i++) ub[i] = (uint8_t)(rnd());
                    e = first ? COObjWrBufStart(&obj[0], &Node, ub, len) : COObjWrBufCont(&obj[0], &Node, ub, len);
                    for (uint32_t i = 0; i < moved; i++) model[off + i] = ub[i];
                    if (e != CO_ERR_NONE || memcmp(dom->Start, model, size) != 0)
                        VIOL(first ? "buffer/chunked/write-start" : "buffer/chunked/write-cont", "domain of %u bytes: chunk %d (%u bytes at offset %u) - object content differs from the reference (err %d)", size, c, len, off, (int)e);
                } else {
                    memset(ub, 0xEE, len ? len : 1);
                    CO_OBJ *o = usestr ? &obj[1] : &obj[0];
                    const uint8_t *src = usestr ? str->Start : dom->Start;
                    e = first ? COObjRdBufStart(o, &Node, ub, len) : COObjRdBufCont(o, &Node, ub, len);
                    int ok = e == CO_ERR_NONE;
                    for (uint32_t i = 0; ok && i < moved; i++) if (ub[i] != src[off + i]) ok = 0;
                    for (uint32_t i = moved; ok && i < len; i++) if (ub[i] != 0xEE) ok = 0;
                    if (!ok) VIOL(first ? "buffer/chunked/read-start" : "buffer/chunked/read-cont", "%s of %u bytes: chunk %d (%u bytes at offset %u) delivered wrong bytes (err %d)", usestr ? "string" : "domain", size, c, len, off, (int)e);
                }
                off += moved; first = 0; NChunk++;
                free(ub);
            }
            free(dom->Start); free(dom); free(str->Start); free(str); free(model);
        }
    }
}

int main(int argc, char **argv)
{
    unsigned long seed = argc > 1 ? strtoul(argv[1], 0, 0) : 1;
    int ndicts = argc > 2 ? atoi(argv[2]) : 200;
    unsigned long n32 = argc > 3 ? strtoul(argv[3], 0, 0) : 2000;
    int full = argc > 4 ? atoi(argv[4]) : 0;
    Rng = 0x9E3779B97F4A7C15ull ^ (seed * 0x2545F4914F6CDD1Dull);
    memset(&Node, 0, sizeof Node); Node.NodeId = 1;
    setvbuf(stdout, NULL, _IOLBF, 0);
    int parts = argc > 5 ? atoi(argv[5]) : 63;
    if (parts & 1) { part_small();
        printf("stat small_scope_dictionaries %lu\nstat small_scope_lookups %lu\n", NDict, NLook); }
    if (parts & 2) part_random(ndicts);
    if (parts & 4) { part_init(); part_init_system(); part_init_types(); }
    if (parts & 8) part_typed(n32);
    if (parts & 16) part_buffer(full);
    if (parts & 32) part_chunked();
    if (parts & 64) part_typed_stream();
    printf("stat init_system_dictionaries %lu\nstat init_hook_calls %lu\nstat system_buffer_cases %lu\n", NInitSys, HookCalls, NSysBuf);
    printf("stat dictionaries %lu\nstat lookups %lu\nstat lookups_hit %lu\nstat lookups_miss %lu\nstat init_dictionaries %lu\nstat typed_cases %lu\nstat buffer_cases %lu\nstat chunked_cases %lu\nstat violations %lu\n",
           NDict, NLook, NHit, NMiss, NInitDict, NTyped, NBuf, NChunk, NViol);
    printf("sample small-scope: all 256 subsets of an 8-key universe x 21 probe keys x 4 flag bytes, array of exactly n+1 entries\n");
    printf("sample typed: width x direct/referenced x plain/node-id-relative x node id {1,64,127} x all 8-bit, 16-bit values, boundary+random 32-bit\n");
    printf("done\n");
    return 0;
}
