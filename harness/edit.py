#!/usr/bin/env python3
"""CRLF-preserving search/replace for repository sources: edit.py <file> <<< JSON [[old,new],...]  (texts use \n; converted to the file's line ending)"""
import sys, json
p = sys.argv[1]
s = open(p, newline='').read()
crlf = '\r\n' in s
pairs = json.load(sys.stdin)
for old, new in pairs:
    if crlf:
        old = old.replace('\n', '\r\n'); new = new.replace('\n', '\r\n')
    if s.count(old) != 1:
        print("pattern occurs %d times: %r" % (s.count(old), old[:80])); sys.exit(1)
    s = s.replace(old, new)
open(p, 'w', newline='').write(s)
print("edited", p, "CRLF" if crlf else "LF")
