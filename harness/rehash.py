#!/usr/bin/env python3
"""After a history rewrite of /repo: map the commit hashes in known_findings.txt from <old tip> to HEAD by commit subject."""
import subprocess, sys, re
old_tip = sys.argv[1]
def log(rev):
    out = subprocess.run(['git', '-C', '/repo', 'log', '--format=%h %s', '602ad46..' + rev], capture_output=True, text=True).stdout.splitlines()
    return {l.split(' ', 1)[1]: l.split(' ', 1)[0] for l in out}
old, new = log(old_tip), log('HEAD')
t = open('/verif/known_findings.txt').read()
n = 0
for subj, h in old.items():
    if subj in new and new[subj] != h and h in t:
        t = t.replace(h, new[subj]); n += 1
open('/verif/known_findings.txt', 'w').write(t)
print("rewrote", n, "hashes")
# verify
hs = set(re.findall(r'^fixed: property=\S+ ([0-9a-f]{7}) ', t, re.M))
bad = [h for h in hs if h not in new.values()]
print("unknown hashes:", bad)
