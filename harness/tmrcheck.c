/* tmrcheck - C07 / C08 engine.
 *
 * Runs the real timer manager (co_tmr.c) in lockstep with a tiny sequential
 * reference model (set of (due, period) per action plus capacity) that shares
 * nothing with the implementation's delta list.
 *
 *   c07bfs <pool> <depth> <maxstates>   bounded-exhaustive exploration with snapshot/restore
 *   c07rand <seed> <nseq> <nops>        random long sequences, pools 1..16
 *   conv <seed> <n>                     time -> tick conversion
 *   c08 <seed> <nseq> <maxops>          every instruction of every op preempted by the tick ISR (trap flag),
 *                                       plus separated service / process
 * output: "viol <key> <text>", "stat <name> <n>", "sample <text>", "done"
 */
#define _GNU_SOURCE
#include <stdio.h>
#include <stdlib.h>
#include <string.h>
#include <stdint.h>
#include <signal.h>
#include <ucontext.h>
#include <unistd.h>
#include <sys/time.h>
#include <sys/mman.h>
#include "co_core.h"

#define NSLOT 32
#define MAXPOOL 16

static uint64_t Rng;
static uint32_t rnd(void) { Rng ^= Rng << 13; Rng ^= Rng >> 7; Rng ^= Rng << 17; return (uint32_t)(Rng >> 16); }

static unsigned long NViol, NExec, NCb, NCreateOk, NCreateFail, NDelOk, NDelFail, NTick, NIsr, NIsrDeferred, NElapsedDel, NSameTick, NCbCreate, NCbDelete;
/* cheap event trace (no libc work while single-stepping); formatted only when a violation is reported */
typedef struct { uint8_t t; int32_t a, b, c, d; } TEV;
enum { T_HDR, T_CREATE, T_RET, T_DELETE, T_CB, T_ISR, T_ISRDEF, T_ISRUNL, T_SVC, T_TICK, T_PB, T_PE, T_HDR2, T_DOTS };
static TEV Tr[400]; static int TrN;
static inline void tr(int t, int a, int b, int c, int d) { if (TrN < 400) { Tr[TrN].t = (uint8_t)t; Tr[TrN].a = a; Tr[TrN].b = b; Tr[TrN].c = c; Tr[TrN].d = d; TrN++; } }
static void tr_print(void)
{
    for (int i = 0; i < TrN; i++) {
        TEV *e = &Tr[i];
        switch (e->t) {
        case T_HDR: printf(" [pool %d depth/seq %d op %d instr %d]", e->a, e->b, e->c, e->d); break;
        case T_HDR2: printf(" [pool %d %s]", e->a, e->b ? "plain" : "random"); break;
        case T_CREATE: printf(" create(%d,%d,b%d)", e->a, e->b, e->c); break;
        case T_RET: printf("=%d", e->a); break;
        case T_DELETE: printf(" delete(%d)", e->a); break;
        case T_CB: printf(" cb[slot %d id %d]@%d", e->a, e->c, e->b); break;
        case T_ISR: printf(" ISR@%d", e->a); break;
        case T_ISRDEF: printf(" ISR(masked,deferred)"); break;
        case T_ISRUNL: printf(" ISR@%d(at unlock)", e->a); break;
        case T_SVC: printf(" svc@%d", e->a); break;
        case T_TICK: printf(" tick@%d", e->a); break;
        case T_PB: printf(" process{"); break;
        case T_PE: printf(" }"); break;
        case T_DOTS: printf(" ..."); break;
        }
    }
}
static int Failed;           /* current execution already reported */
#define VIOL(key, ...) do { if (!Failed) { Failed = 1; if (NViol++ < 40) { printf("viol %s ", key); printf(__VA_ARGS__); printf(" || trace:"); tr_print(); printf("\n"); } } } while (0)

/* CPU watchdog: one execution normally costs micro- to milliseconds; 20 s of process CPU time (user+sys) is a decisive hang */
static void tr_print(void);
static void on_prof(int sig)
{
    (void)sig;
    printf("viol hang/unbounded-loop an execution did not finish within 20 s of CPU time || trace:"); tr_print(); printf("\n");
    fflush(stdout);
    _exit(97);
}
static void wd_arm(void)
{
    struct itimerval it; memset(&it, 0, sizeof it); it.it_value.tv_sec = 20;
    setitimer(ITIMER_PROF, &it, NULL);
}
/* --------------------------------------------------------------- system */
typedef struct { uint8_t live; int8_t id; uint8_t beh; uint8_t gen; uint32_t due; uint32_t period; } MAct;
/* delays of 2^31 ticks and more: they never expire in a run, but every later timer has to be linked in front of them */
static const uint32_t HUGE_D[] = { 0x7FFFFFFFu, 0x80000000u, 0x80000001u, 0x90000000u, 0xF0000000u };
static CO_NODE Node;              /* only Tmr / If / Error are used; Tmr is part of every snapshot */
typedef struct {
    CO_TMR tmr;                   /* image of Node.Tmr */
    CO_TMR_MEM mem[MAXPOOL];
    uint32_t hw;                  /* hardware down counter */
    uint32_t clock;               /* ticks delivered (Update calls) */
    uint32_t lockclock;           /* clock at the most recent COTmrLock */
    MAct a[NSLOT];
    int pool;
    int exact;                    /* C07 regime: due must equal clock */
    int nextslot;
} SYS;
static SYS *S;                    /* the one live system (fixed address: TmrMem pointers point into it) */
static void snap_save(SYS *dst) { S->tmr = Node.Tmr; memcpy(dst, S, sizeof(SYS)); }
static void wd_arm(void);
static void snap_load(const SYS *src) { memcpy(S, src, sizeof(SYS)); Node.Tmr = S->tmr; wd_arm(); }
static int Slots[NSLOT];          /* callback argument = &Slots[k] */

/* driver */
static void d_v0(void) {} static void d_v1(uint32_t x) { (void)x; }
static int16_t d_rd(CO_IF_FRM *f) { (void)f; return 0; } static int16_t d_sd(CO_IF_FRM *f) { (void)f; return 1; }
static void d_reload(uint32_t r) { S->hw = r; } static uint32_t d_delay(void) { return S->hw; } static void d_stop(void) { S->hw = 0; }
static int WitLatch, LatchVal;     /* witness: a hardware expiry that is latched while the timer interrupt is disabled */
static uint8_t d_update(void) { if (LatchVal) { LatchVal = 0; return 1; } S->clock++; if (S->hw > 0) { S->hw--; if (S->hw == 0) return 1; } return 0; }
static uint32_t d_nv(uint32_t a, uint8_t *b, uint32_t c) { (void)a; (void)b; return c; }
static const CO_IF_CAN_DRV Can = { d_v0, d_v1, d_rd, d_sd, d_v0, d_v0 };
static const CO_IF_TIMER_DRV Tm = { d_v1, d_reload, d_delay, d_stop, d_v0, d_update };
static const CO_IF_NVM_DRV Nv = { d_v0, d_nv, d_nv };
static CO_IF_DRV Drv = { &Can, &Tm, &Nv };

/* interrupt simulation */
static volatile int IrqMasked, IrqPending, LockDepth, InIsr;   /* InIsr: the tick service does not nest */
static void invariants(const char *where, int isr);
static void isr(void)
{
    NIsr++;
    if (IrqMasked) { IrqPending++; NIsrDeferred++; tr(T_ISRDEF, 0, 0, 0, 0); return; }
    tr(T_ISR, (int)S->clock + 1, 0, 0, 0);
    InIsr = 1;
    invariants("isr-entry", 1);
    (void)COTmrService(&Node.Tmr);
    InIsr = 0;
}
void COTmrLock(void)
{
    LockDepth++; IrqMasked = 1; S->lockclock = S->clock;
    if (WitLatch && S->hw == 1) { WitLatch = 0; S->clock++; S->hw = 0; LatchVal = 1; IrqPending++; }    /* the timer expires right after the interrupt was disabled */
}
void COTmrUnlock(void)
{
    LockDepth--; IrqMasked = 0;
    while (IrqPending > 0) { IrqPending--; InIsr = 1; tr(T_ISRUNL, (int)S->clock + 1, 0, 0, 0); invariants("isr-entry", 1); (void)COTmrService(&Node.Tmr); InIsr = 0; }
}
void CONodeFatalError(void) { VIOL("fatal", "CONodeFatalError called"); }

/* ------------------------------------------------------------ invariants */
static int in_mem(void *p) { return (uint8_t *)p >= (uint8_t *)S->mem && (uint8_t *)p < (uint8_t *)(S->mem + S->pool); }
static int walk(CO_TMR_TIME *t, int max, int *nacts, int used, const char *nm, const char *where)
{
    int n = 0;
    while (t) {
        if (!in_mem(t)) { VIOL("inv/ptr", "%s: %s list leaves the timer memory", where, nm); return -1; }
        if (++n > max) { VIOL("inv/cycle", "%s: %s list longer than the pool", where, nm); return -1; }
        CO_TMR_ACTION *a = t->Action, *last = 0; int k = 0;
        while (a) {
            if (!in_mem(a)) { VIOL("inv/ptr", "%s: action list of %s leaves the timer memory", where, nm); return -1; }
            if (++k > max) { VIOL("inv/cycle", "%s: action list cycle in %s", where, nm); return -1; }
            last = a; a = a->Next;
        }
        if (used == 1 && k == 0) VIOL("inv/empty-used-event", "%s: event without action in the used list", where);
        if (k > 0 && t->ActionEnd != last) VIOL("inv/actionend", "%s: ActionEnd of a %s event is not its last action", where, nm);
        if (used == 1 && n > 1 && t->Delta == 0) VIOL("inv/zero-delta", "%s: zero delta inside the used list", where);
        *nacts += k;
        t = t->Next;
    }
    return n;
}
static void invariants(const char *where, int in_isr)
{
    CO_TMR *tm = &Node.Tmr; int max = S->pool, au = 0, ae = 0, af = 0;
    int nu = walk(tm->Use, max, &au, 1, "used", where);
    int ne = walk(tm->Elapsed, max, &ae, 2, "elapsed", where);
    if (nu < 0 || ne < 0) return;
    if (in_isr) {                       /* only the lists the ISR itself uses must be consistent at ISR entry */
        if ((S->hw != 0) && nu == 0) VIOL("inv/isr-hw-without-use", "%s: hardware counter runs with an empty used list", where);
        return;
    }
    int nf = walk(tm->Free, max, &af, 0, "free", where);
    if (nf < 0) return;
    if (nu + ne + nf != max) VIOL("inv/conservation", "%s: used %d + elapsed %d + free %d != capacity %d", where, nu, ne, nf, max);
    int na = 0; for (CO_TMR_ACTION *a = tm->Acts; a; a = a->Next) { if (!in_mem(a) || ++na > max) { VIOL("inv/acts", "%s: free action list corrupt", where); return; } }
    if (na + au + ae != max) VIOL("inv/action-conservation", "%s: free actions %d + used %d + elapsed %d != capacity %d", where, na, au, ae, max);
    if ((S->hw != 0) != (nu != 0)) VIOL("inv/hw-counter", "%s: hardware counter %u with %d used events", where, S->hw, nu);
    if (LockDepth != 0) VIOL("inv/lock", "%s: lock depth %d at a quiescent point", where, LockDepth);
    /* the model's live set and the implementation's action lists must agree in size */
    int live = 0; for (int k = 0; k < NSLOT; k++) live += S->a[k].live;
    if (live != au + ae) VIOL("inv/live-count", "%s: model has %d live actions, implementation holds %d", where, live, au + ae);
}

/* ------------------------------------------------------------------ ops */
/* single-stepping (C08) is active only while a task-level timer call executes stack code */
static volatile int TfOn;
static inline void tf_set(void)   { __asm__ volatile("pushfq\n\torq $0x100,(%%rsp)\n\tpopfq" ::: "cc", "memory"); }
static inline void tf_clear(void) { __asm__ volatile("pushfq\n\tandq $~0x100,(%%rsp)\n\tpopfq" ::: "cc", "memory"); }
static volatile int BpMode, InTask;     /* BpMode: the interrupt position is reached with a breakpoint instead of single-stepping */
#define TASKCALL(stmt) do { int prev_ = InTask; InTask = 1; if (TfOn && !BpMode) tf_set(); stmt; if (TfOn && !BpMode) tf_clear(); InTask = prev_; } while (0)

static void cb(void *arg);
static int InProcess;
static int model_live(void) { int n = 0; for (int k = 0; k < NSLOT; k++) n += S->a[k].live; return n; }

static int op_create(uint32_t s, uint32_t c, int beh)
{
    int k = S->nextslot % NSLOT;
    for (int i = 0; i < NSLOT; i++) { if (!S->a[(k + i) % NSLOT].live) { k = (k + i) % NSLOT; break; } }
    if (!S->exact) S->nextslot = k + 1;                 /* C08: do not reuse a slot soon */
    uint32_t s0 = s ? s : c;
    int want_fail = (s0 == 0) || (model_live() >= S->pool);
    tr(T_CREATE, (int)s, (int)c, beh, 0);
    int id; TASKCALL(id = COTmrCreate(&Node.Tmr, s, c, cb, &Slots[k]));
    tr(T_RET, id, 0, 0, 0);
    if (id < 0) {
        NCreateFail++;
        if (!want_fail) VIOL("create/refused", "create(%u,%u) failed with %d free slots", s, c, S->pool - model_live());
        (void)CONodeGetErr(&Node);
        return -1;
    }
    NCreateOk++;
    if (want_fail) { VIOL("create/accepted", "create(%u,%u) succeeded although %s", s, c, s0 == 0 ? "both times are zero" : "no slot is free"); return id; }
    if (id >= S->pool) VIOL("create/id-range", "id %d outside pool %d", id, S->pool);
    for (int j = 0; j < NSLOT; j++) if (S->a[j].live && S->a[j].id == id) VIOL("create/id-duplicate", "id %d handed out twice", id);
    S->a[k].live = 1; S->a[k].id = id; S->a[k].period = c; S->a[k].beh = beh; S->a[k].gen++;
    S->a[k].due = (S->exact ? S->clock : S->lockclock) + s0;
    return id;
}
static void op_delete(int id)
{
    int k = -1;
    for (int j = 0; j < NSLOT; j++) if (S->a[j].live && S->a[j].id == id) k = j;
    tr(T_DELETE, id, 0, 0, 0);
    int elapsed = (k >= 0 && S->a[k].due <= S->clock);
    int r; TASKCALL(r = COTmrDelete(&Node.Tmr, (int16_t)id));
    tr(T_RET, r, 0, 0, 0);
    if (k >= 0) {
        if (r == 0) { NDelOk++; S->a[k].live = 0; if (elapsed) NElapsedDel++; if (InProcess && elapsed) NSameTick++; }
        else if (InProcess && S->a[k].due <= S->clock) VIOL("delete/in-pass-refused", "delete, from a callback, of live action id %d which is due in the pass in progress returned %d (it has elapsed and is not yet processed)", id, r);
        else VIOL(elapsed ? "delete/elapsed-refused" : "delete/refused", "delete of live action id %d returned %d", id, r);
    } else {
        NDelFail++;
        if (r == 0) VIOL("delete/stale-confirmed", "delete of id %d, which is not live, was confirmed", id);
    }
}
static void cb(void *arg)
{
    int prevtask_ = InTask; InTask = 0;
    if (TfOn && !BpMode) tf_clear();
    int k = (int)((int *)arg - Slots);
    MAct *a = &S->a[k];
    NCb++;
    tr(T_CB, k, (int)S->clock, a->id, 0);
    if (!a->live) { VIOL("run/not-live", "callback of slot %d ran although its action is not live (deleted or already finished)", k); if (TfOn && !BpMode) tf_set(); InTask = prevtask_; return; }
    if (S->exact ? (a->due != S->clock) : (a->due > S->clock)) {
        VIOL(a->due > S->clock ? "run/early-or-twice" : "run/late", "action id %d ran at tick %u, due at %u (period %u)", a->id, S->clock, a->due, a->period);
        if (TfOn && !BpMode) tf_set();
        InTask = prevtask_;
        return;
    }
    if (a->period == 0) a->live = 0;
    else a->due = (S->exact ? S->clock : S->lockclock) + a->period;
    int beh = a->beh;
    if (beh == 1) { NCbCreate++; (void)op_create(2, 0, 0); }
    else if (beh == 2) { NCbDelete++; int t = (k + 1) % NSLOT; op_delete(S->a[t].live ? S->a[t].id : (a->id + 1) % (S->pool + 1)); }
    if (TfOn && !BpMode) tf_set();
    InTask = prevtask_;
}
static void check_pass_complete(uint32_t start_clock, const char *what)
{
    for (int k = 0; k < NSLOT; k++)
        if (S->a[k].live && S->a[k].due <= start_clock)
            VIOL("run/lost", "%s: action id %d was due at %u but did not run in the processing pass started at tick %u", what, S->a[k].id, S->a[k].due, start_clock);
}
static void op_process(void)
{
    uint32_t start = S->clock;
    tr(T_PB, 0, 0, 0, 0);
    InProcess = 1; TASKCALL(COTmrProcess(&Node.Tmr)); InProcess = 0;
    tr(T_PE, 0, 0, 0, 0);
    check_pass_complete(start, "process");
}
static void op_service(void) { tr(T_SVC, (int)S->clock + 1, 0, 0, 0); NTick++; (void)COTmrService(&Node.Tmr); }
static void op_tick(void) { NTick++; tr(T_TICK, (int)S->clock + 1, 0, 0, 0); if (COTmrService(&Node.Tmr) > 0 || Node.Tmr.Elapsed) op_process(); else check_pass_complete(S->clock, "tick"); }

static void sys_init(int pool, int exact)
{
    wd_arm();
    memset(S, 0, sizeof *S); memset(&Node, 0, sizeof Node);
    S->pool = pool; S->exact = exact;
    Node.If.Drv = &Drv; Node.If.Node = &Node;
    IrqMasked = 0; IrqPending = 0; LockDepth = 0;
    COTmrInit(&Node.Tmr, &Node, S->mem, (uint16_t)pool, 1000);
}

/* ---------------------------------------------------------------- C07 BFS */
typedef struct { int kind; uint32_t s, c; int beh; int id; } OP;   /* 0 create 1 delete 2 tick */
static void apply(const OP *o)
{
    if (o->kind == 0) (void)op_create(o->s, o->c, o->beh);
    else if (o->kind == 1) op_delete(o->id);
    else if (o->kind == 2) op_tick();
    else if (o->kind == 3) op_service();
    else op_process();
    if (!Failed) invariants("after-op", 0);
    NExec++;
}
static uint64_t state_hash(void)
{
    uint64_t h = 1469598103934665603ull;
    #define MIX(p, n) do { const uint8_t *q = (const uint8_t *)(p); for (size_t i_ = 0; i_ < (n); i_++) { h ^= q[i_]; h *= 1099511628211ull; } } while (0)
    MIX(&Node.Tmr, sizeof Node.Tmr); MIX(S->mem, sizeof(CO_TMR_MEM) * (size_t)S->pool); MIX(&S->hw, 4);
    for (int k = 0; k < NSLOT; k++) { MAct *a = &S->a[k]; uint32_t rel = a->live ? a->due - S->clock : 0; int v[4] = { a->live, a->live ? a->id : 0, (int)a->period * a->live, a->beh * a->live }; MIX(v, sizeof v); MIX(&rel, 4); }
    return h;
}
static uint64_t *HSet; static size_t HCap, HCnt;
static int hset_add(uint64_t h)
{
    if (h == 0) h = 1;
    if (HCnt * 2 >= HCap) return -1;          /* table full: exploration truncated */
    size_t i = (size_t)(h % HCap);
    while (HSet[i]) { if (HSet[i] == h) return 0; i = (i + 1) % HCap; }
    HSet[i] = h; HCnt++; return 1;
}
static void c07bfs(int pool, int depth, size_t maxstates)
{
    /* breadth-first over operation sequences; a successor is expanded only if the pair
     * (model state, implementation memory image) is new */
    HCap = maxstates * 2 + 1024; HSet = calloc(HCap, sizeof(uint64_t));
    SYS *cur = malloc(sizeof(SYS) * (maxstates + 1)), *next;
    size_t ncur = 0, nnext = 0; size_t shapes = 0;
    S = malloc(sizeof(SYS)); sys_init(pool, 1);
    /* the trick: S must stay at a fixed address (pointers inside the image) - snapshots are copied in and out of *S */
    snap_save(&cur[0]); ncur = 1; hset_add(state_hash());
    next = malloc(sizeof(SYS) * (maxstates + 1));
    OP ops[128]; int nops = 0;
    for (uint32_t s = 0; s <= 3; s++) for (uint32_t c = 0; c <= 2; c++) for (int b = 0; b <= 2; b++) { if (b && (s + c) % 2) continue; ops[nops++] = (OP){ 0, s, c, b, 0 }; }
    for (int id = -1; id <= pool; id++) ops[nops++] = (OP){ 1, 0, 0, 0, id };
    ops[nops++] = (OP){ 2, 0, 0, 0, 0 };
    int truncated = 0;
    for (int d = 0; d < depth && ncur > 0; d++) {
        nnext = 0;
        for (size_t i = 0; i < ncur; i++) {
            for (int o = 0; o < nops; o++) {
                snap_load(&cur[i]);
                Failed = 0; TrN = 0; tr(T_HDR, pool, d + 1, o, -1);
                apply(&ops[o]);
                if (Failed) continue;
                int isnew = hset_add(state_hash());
                if (isnew < 0) truncated = 1;
                if (isnew > 0) {
                    shapes++;
                    if (nnext < maxstates) snap_save(&next[nnext++]); else truncated = 1;
                }
            }
        }
        SYS *t = cur; cur = next; next = t; ncur = nnext;
        printf("stat bfs_pool%d_depth%d_frontier %zu\n", pool, d + 1, ncur);
    }
    printf("stat bfs_states %zu\nstat bfs_truncated %d\n", HCnt, truncated);
    free(HSet); free(cur); free(next);
}

/* -------------------------------------------------------------- C07 random */
static void c07rand(unsigned long nseq, int nops)
{
    S = malloc(sizeof(SYS));
    for (unsigned long q = 0; q < nseq; q++) {
        int pool = (int)(rnd() % 17);          /* 0: a node without a timer pool - nothing can be created */
        sys_init(pool, 1);
        Failed = 0; TrN = 0; tr(T_HDR2, pool, 0, 0, 0);
        uint32_t maxd = (rnd() % 3 == 0) ? 3 : 50;
        for (int i = 0; i < nops && !Failed; i++) {
            uint32_t x = rnd() % 100;
            OP o;
            if (x < 2) o = (OP){ 0, HUGE_D[rnd() % 5], (rnd() % 2) ? HUGE_D[rnd() % 5] : 0, 0, 0 };
            else if (x < 30) o = (OP){ 0, rnd() % (maxd + 1), (rnd() % 3 == 0) ? rnd() % (maxd + 1) : 0, (int)(rnd() % 4 == 0 ? 1 + rnd() % 2 : 0), 0 };
            else if (x < 45) o = (OP){ 1, 0, 0, 0, (int)(rnd() % (uint32_t)(pool + 2)) - 1 };
            else o = (OP){ 2, 0, 0, 0, 0 };
            if (TrN > 300) { TrN = 0; tr(T_HDR2, pool, 0, 0, 0); tr(T_DOTS, 0, 0, 0, 0); }
            apply(&o);
        }
    }
}

/* ------------------------------------------------ witness: period under deferred processing */
static unsigned long WitCnt;
static void wit_cb(void *arg) { (void)arg; WitCnt++; }
static void witness_period(void)
{
    /* a cyclic action of 3 ticks, tick service every tick, processing after every second tick: "once every period" means 200 runs in
     * 600 ticks (every expiry is processed in the next processing step, the period is anchored at the expiry). The pinned tree re-arms a
     * cyclic action relative to the processing step, so every tick between service and processing is added to the period (recorded finding). */
    S = malloc(sizeof(SYS)); sys_init(2, 1);
    WitCnt = 0;
    (void)COTmrCreate(&Node.Tmr, 3, 3, wit_cb, 0);
    for (int t = 1; t <= 600; t++) {
        S->clock++;
        (void)COTmrService(&Node.Tmr);
        if (t % 2 == 0) COTmrProcess(&Node.Tmr);
    }
    COTmrProcess(&Node.Tmr);
    if (WitCnt != 200) VIOL("deferred/period-anchor", "period 3 ticks, processing after every 2nd tick, 600 ticks: %lu runs, reference 200 (period counted from the processing step instead of the expiry)", WitCnt);
    printf("stat executions 1\n");
}

static void witness_latched(void)
{
    /* the last running timer is deleted while its expiry is latched in the (disabled) timer interrupt: the service routine that runs
     * when the interrupt is enabled again finds no timer in the used list and has nothing to do */
    S = malloc(sizeof(SYS)); sys_init(2, 1);
    int16_t id = COTmrCreate(&Node.Tmr, 1, 0, wit_cb, 0);
    WitLatch = 1;
    int16_t r = COTmrDelete(&Node.Tmr, id);
    COTmrProcess(&Node.Tmr);
    if (r != 0 || WitCnt != 0) VIOL("latched/delete", "delete of the last timer with its expiry latched: delete returned %d, callback ran %lu times", r, WitCnt);
    int16_t id2 = COTmrCreate(&Node.Tmr, 2, 0, wit_cb, 0);
    for (int t = 0; t < 3; t++) { (void)COTmrService(&Node.Tmr); COTmrProcess(&Node.Tmr); }
    if (id2 < 0 || WitCnt != 1) VIOL("latched/after", "timer created after the latched delete: id %d, ran %lu times in 3 ticks (reference 1)", id2, WitCnt);
    printf("stat executions 1\n");
}

/* ------------------------------------------------------------- conversions */
static void conv(unsigned long n)
{
    static const uint32_t F[] = { 1, 2, 3, 7, 10, 50, 99, 100, 101, 250, 300, 333, 999, 1000, 1001, 1024, 2000, 3000, 9999, 10000, 10001, 16000, 32768, 48000, 100000, 1000000, 1234567, 8000000,
                                  16000000, 48000000, 65536000, 65537000, 65538001, 72000000, 80000000, 100000000, 168000000, 216000000, 400000000, 1000000000, 4294967295u };
    static const uint32_t Un[] = { CO_TMR_UNIT_1MS, CO_TMR_UNIT_100US };
    S = malloc(sizeof(SYS)); sys_init(4, 1);
    unsigned long cases = 0, exactc = 0;
    for (unsigned long q = 0; q < n + sizeof F / sizeof F[0]; q++) {
        uint32_t f = q < sizeof F / sizeof F[0] ? F[q] : 1 + rnd() % (rnd() % 3 == 0 ? 20000 : rnd() % 2 ? 10000000 : 4294967295u);
        Node.Tmr.Freq = f;
        for (int u = 0; u < 2; u++) {
            uint32_t unit = Un[u], prev = 0;
            for (uint32_t t = 0; t <= 65535; t += (q < 60 ? 1 : 1 + rnd() % 97)) {
                uint32_t got = COTmrGetTicks(&Node.Tmr, (uint16_t)t, unit);
                uint64_t prod = (uint64_t)t * f;
                cases++;
                if (got < prev) { VIOL("conv/monotonic", "freq %u unit %u: ticks(%u) = %u < ticks(previous) = %u", f, unit, t, got, prev); break; }
                if (prod % unit == 0 && prod / unit <= 0xFFFFFFFFull) {
                    exactc++;
                    if (got != (uint32_t)(prod / unit)) { VIOL("conv/exact", "freq %u Hz, %u x 1/%u s is exactly %llu ticks, COTmrGetTicks returned %u", f, t, unit, (unsigned long long)(prod / unit), got); break; }
                }
                prev = got;
            }
        }
    }
    printf("stat conv_cases %lu\nstat conv_exact_cases %lu\n", cases, exactc);
}

/* ------------------------------------------------------------------- C08 */
extern char __start_costk[] __attribute__((weak)), __stop_costk[] __attribute__((weak));
static volatile long TfCount, TfTarget, TfTarget2;
static unsigned long PcSeen[4096]; static int NPcSeen;
#define PCTRACE 16384
static uintptr_t PcTrace[PCTRACE];                 /* program counters of the counting pass, in execution order */
static uintptr_t BpPc; static uint8_t BpOrig; static volatile long BpOcc, BpHits; static volatile int BpArmed, BpStep;
static unsigned long BpNeverHit;
static void pc_seen(uintptr_t pc)
{
    unsigned long off = (unsigned long)(pc - (uintptr_t)__start_costk);
    for (int i = 0; i < NPcSeen; i++) if (PcSeen[i] == off) return;
    if (NPcSeen < 4096) PcSeen[NPcSeen++] = off;
}
static void on_trap(int sig, siginfo_t *si, void *ucv)
{
    (void)sig; (void)si;
    ucontext_t *uc = ucv;
    greg_t *g = uc->uc_mcontext.gregs;
    if (BpMode) {
        if (BpStep) {                              /* single step over a non-target occurrence: re-insert the breakpoint */
            BpStep = 0; g[REG_EFL] &= ~0x100L;
            if (BpArmed) *(volatile uint8_t *)BpPc = 0xCC;
            return;
        }
        uintptr_t pc = (uintptr_t)g[REG_RIP] - 1;
        if (!BpArmed || pc != BpPc) return;
        *(volatile uint8_t *)BpPc = BpOrig;        /* execute the original instruction next */
        g[REG_RIP] = (greg_t)pc;
        if (InTask && !InIsr) {
            if (BpHits == BpOcc) { BpArmed = 0; pc_seen(pc); isr(); return; }
            BpHits++;
        }
        BpStep = 1; g[REG_EFL] |= 0x100L;
        return;
    }
    uintptr_t pc = (uintptr_t)g[REG_RIP];
    if (!TfOn || InIsr) return;
    if (pc >= (uintptr_t)__start_costk && pc < (uintptr_t)__stop_costk) {
        if (TfCount == TfTarget || TfCount == TfTarget2) { pc_seen(pc); isr(); }
        if (TfCount < PCTRACE) PcTrace[TfCount] = pc;
        TfCount++;
    }
}
static long run_preempted(const OP *o, long target, long target2)
{
    TfCount = 0; TfTarget = target; TfTarget2 = target2; TfOn = 1;
    if (o->kind == 0) (void)op_create(o->s, o->c, o->beh);
    else if (o->kind == 1) op_delete(o->id);
    else if (o->kind == 2) op_tick();
    else if (o->kind == 3) op_service();
    else op_process();
    TfOn = 0;
    return TfCount;
}
static void drain(void)
{
    /* quiescence: deliver enough ticks for every pending expiry, process after each */
    for (int i = 0; i < 16 && !Failed; i++) { op_tick(); }
    if (!Failed) invariants("final", 0);
    for (int k = 0; k < NSLOT && !Failed; k++)
        if (S->a[k].live && S->a[k].due <= S->clock) VIOL("run/lost", "final: action id %d due at %u never ran (clock %u)", S->a[k].id, S->a[k].due, S->clock);
}
static void gen_seq(OP *seq, int n, int pool)
{
    for (int i = 0; i < n; i++) {
        uint32_t x = rnd() % 100;
        if (x < 3) seq[i] = (OP){ 0, HUGE_D[rnd() % 5], (rnd() % 2) ? HUGE_D[rnd() % 5] : 0, 0, 0 };
        else if (x < 34) seq[i] = (OP){ 0, rnd() % 4, (rnd() % 3 == 0) ? 1 + rnd() % 3 : 0, (int)(rnd() % 5 == 0 ? 1 + rnd() % 2 : 0), 0 };
        else if (x < 52) seq[i] = (OP){ 1, 0, 0, 0, (int)(rnd() % (uint32_t)(pool + 1)) };
        else if (x < 70) seq[i] = (OP){ 2, 0, 0, 0, 0 };
        else if (x < 86) seq[i] = (OP){ 3, 0, 0, 0, 0 };          /* service only: processing deferred */
        else seq[i] = (OP){ 4, 0, 0, 0, 0 };                       /* process only */
    }
}
static void c08plain(unsigned long nseq, int maxops)
{
    /* separated service / process (deferred processing) without preemption */
    S = malloc(sizeof(SYS)); OP seq[64];
    for (unsigned long q = 0; q < nseq; q++) {
        int pool = 1 + (int)(rnd() % 6);
        int n = 4 + (int)(rnd() % (uint32_t)(maxops - 3));
        gen_seq(seq, n, pool);
        sys_init(pool, 0);
        Failed = 0; TrN = 0; tr(T_HDR2, pool, 1, 0, 0);
        for (int i = 0; i < n && !Failed; i++) { apply(&seq[i]); }
        if (!Failed) drain();
    }
    printf("stat deferred_sequences %lu\n", nseq);
}
static void run_op(const OP *o)
{
    if (o->kind == 0) (void)op_create(o->s, o->c, o->beh);
    else if (o->kind == 1) op_delete(o->id);
    else if (o->kind == 2) op_tick();
    else if (o->kind == 3) op_service();
    else op_process();
}
static void c08fast(unsigned long nseq, int maxops)
{
    /* like c08, but the chosen instruction is reached with a breakpoint (one or a few traps) instead of single-stepping the whole call */
    if (__start_costk == 0) { printf("viol harness/no-costk build without renamed text section\n"); return; }
    struct sigaction sa; memset(&sa, 0, sizeof sa); sa.sa_sigaction = on_trap; sa.sa_flags = SA_SIGINFO; sigaction(SIGTRAP, &sa, NULL);
    uintptr_t lo = (uintptr_t)__start_costk & ~(uintptr_t)4095, hi = ((uintptr_t)__stop_costk + 4095) & ~(uintptr_t)4095;
    if (mprotect((void *)lo, hi - lo, PROT_READ | PROT_WRITE | PROT_EXEC) != 0) { printf("viol harness/mprotect cannot make the stack text writable\n"); return; }
    S = malloc(sizeof(SYS)); SYS *snap = malloc(sizeof(SYS)); SYS *base = malloc(sizeof(SYS));
    OP seq[64];
    unsigned long positions = 0;
    for (unsigned long q = 0; q < nseq; q++) {
        int pool = 1 + (int)(rnd() % 4);
        int n = 4 + (int)(rnd() % (uint32_t)(maxops - 3));
        gen_seq(seq, n, pool);
        sys_init(pool, 0);
        snap_save(base);
        for (int j = 0; j < n; j++) {
            snap_save(snap);
            Failed = 0; TrN = 0;
            BpMode = 0;
            long N = run_preempted(&seq[j], -1, -1);          /* counting pass (single-stepped), fills PcTrace */
            if (N > PCTRACE) N = PCTRACE;
            for (long k = 0; k < N; k++) {
                long occ = 0; for (long i = 0; i < k; i++) if (PcTrace[i] == PcTrace[k]) occ++;
                snap_load(snap); IrqMasked = 0; IrqPending = 0; LockDepth = 0; InProcess = 0; InIsr = 0; InTask = 0;
                Failed = 0; TrN = 0; tr(T_HDR, pool, (int)q, j, (int)k);
                BpPc = PcTrace[k]; BpOrig = *(volatile uint8_t *)BpPc; BpOcc = occ; BpHits = 0; BpStep = 0; BpArmed = 1; BpMode = 1;
                *(volatile uint8_t *)BpPc = 0xCC;
                TfOn = 1;
                run_op(&seq[j]);
                TfOn = 0;
                if (BpArmed) { *(volatile uint8_t *)BpPc = BpOrig; BpArmed = 0; BpNeverHit++; }
                BpMode = 0;
                NExec++; positions++;
                if (!Failed) invariants("after-preempted-op", 0);
                for (int i = j + 1; i < n && !Failed; i++) apply(&seq[i]);
                if (!Failed) drain();
            }
            snap_load(snap); IrqMasked = 0; IrqPending = 0; LockDepth = 0; InProcess = 0; InIsr = 0; InTask = 0;
            Failed = 0; TrN = 0;
            apply(&seq[j]);
            if (Failed) break;
        }
    }
    printf("stat preempt_executions %lu\nstat preempt_distinct_pcs %d\nstat breakpoint_never_hit %lu\n", positions, NPcSeen, BpNeverHit);
    if (NPcSeen > 0) printf("sample first preemption offsets in stack text: %lx %lx %lx\n", PcSeen[0], PcSeen[NPcSeen / 2], PcSeen[NPcSeen - 1]);
}
static void c08(unsigned long nseq, int maxops)
{
    if (__start_costk == 0) { printf("viol harness/no-costk build without renamed text section\n"); return; }
    struct sigaction sa; memset(&sa, 0, sizeof sa); sa.sa_sigaction = on_trap; sa.sa_flags = SA_SIGINFO; sigaction(SIGTRAP, &sa, NULL);
    S = malloc(sizeof(SYS)); SYS *snap = malloc(sizeof(SYS)); SYS *base = malloc(sizeof(SYS));
    OP seq[64];
    unsigned long positions = 0, dbl = 0;
    for (unsigned long q = 0; q < nseq; q++) {
        int pool = 1 + (int)(rnd() % 4);
        int n = 4 + (int)(rnd() % (uint32_t)(maxops - 3));
        gen_seq(seq, n, pool);
        sys_init(pool, 0);
        snap_save(base);
        /* (a) plain run with separated service/process only */
        Failed = 0; TrN = 0; tr(T_HDR2, pool, 1, 0, 0);
        for (int i = 0; i < n && !Failed; i++) { apply(&seq[i]); }
        if (!Failed) drain();
        /* (b) every op, every instruction */
        snap_load(base);
        for (int j = 0; j < n; j++) {
            snap_save(snap);                 /* state before op j (prefix without preemption) */
            Failed = 0; TrN = 0;
            long N = run_preempted(&seq[j], -1, -1);       /* count instructions */
            for (long k = 0; k < N; k++) {
                snap_load(snap); IrqMasked = 0; IrqPending = 0; LockDepth = 0; InProcess = 0; InIsr = 0; InTask = 0;
                Failed = 0; TrN = 0; tr(T_HDR, pool, (int)q, j, (int)k);
                long k2 = -1;
                if (rnd() % 8 == 0) { k2 = k + 1 + (long)(rnd() % 40); dbl++; }
                (void)run_preempted(&seq[j], k, k2);
                NExec++; positions++;
                if (!Failed) invariants("after-preempted-op", 0);
                for (int i = j + 1; i < n && !Failed; i++) apply(&seq[i]);
                if (!Failed) drain();
            }
            /* continue the prefix without preemption */
            snap_load(snap); IrqMasked = 0; IrqPending = 0; LockDepth = 0; InProcess = 0; InIsr = 0; InTask = 0;
            Failed = 0; TrN = 0;
            apply(&seq[j]);
            if (Failed) break;
        }
    }
    printf("stat preempt_executions %lu\nstat preempt_double %lu\nstat preempt_distinct_pcs %d\n", positions, dbl, NPcSeen);
    if (NPcSeen > 0) printf("sample first preemption offsets in stack text: %lx %lx %lx\n", PcSeen[0], PcSeen[NPcSeen / 2], PcSeen[NPcSeen - 1]);
}

int main(int argc, char **argv)
{
    const char *mode = argc > 1 ? argv[1] : "c07rand";
    setvbuf(stdout, NULL, _IOLBF, 0);
    signal(SIGPROF, on_prof);
    for (int k = 0; k < NSLOT; k++) Slots[k] = k;
    if (!strcmp(mode, "c07bfs")) c07bfs(atoi(argv[2]), atoi(argv[3]), (size_t)strtoul(argv[4], 0, 0));
    else if (!strcmp(mode, "c07rand")) { Rng = 0x9E3779B97F4A7C15ull ^ (strtoull(argv[2], 0, 0) * 0x2545F4914F6CDD1Dull); c07rand(strtoul(argv[3], 0, 0), atoi(argv[4])); }
    else if (!strcmp(mode, "witness")) { witness_period(); }
    else if (!strcmp(mode, "latched")) { witness_latched(); }
    else if (!strcmp(mode, "conv")) { Rng = 0x9E3779B97F4A7C15ull ^ (strtoull(argv[2], 0, 0) * 0x2545F4914F6CDD1Dull); conv(strtoul(argv[3], 0, 0)); }
    else if (!strcmp(mode, "c08plain")) { Rng = 0x9E3779B97F4A7C15ull ^ (strtoull(argv[2], 0, 0) * 0x2545F4914F6CDD1Dull); c08plain(strtoul(argv[3], 0, 0), atoi(argv[4])); }
    else if (!strcmp(mode, "c08fast")) { Rng = 0x9E3779B97F4A7C15ull ^ (strtoull(argv[2], 0, 0) * 0x2545F4914F6CDD1Dull); c08fast(strtoul(argv[3], 0, 0), atoi(argv[4])); }
    else if (!strcmp(mode, "c08")) { Rng = 0x9E3779B97F4A7C15ull ^ (strtoull(argv[2], 0, 0) * 0x2545F4914F6CDD1Dull); c08(strtoul(argv[3], 0, 0), atoi(argv[4])); }
    else { printf("bad mode\n"); return 3; }
    printf("stat executions %lu\nstat callbacks %lu\nstat create_ok %lu\nstat create_refused %lu\nstat delete_ok %lu\nstat delete_refused %lu\nstat ticks %lu\n"
           "stat isr %lu\nstat isr_deferred %lu\nstat elapsed_deletes %lu\nstat same_tick_delete_open %lu\nstat cb_creates %lu\nstat cb_deletes %lu\nstat violations %lu\n",
           NExec, NCb, NCreateOk, NCreateFail, NDelOk, NDelFail, NTick, NIsr, NIsrDeferred, NElapsedDel, NSameTick, NCbCreate, NCbDelete, NViol);
    printf("done\n");
    return 0;
}
